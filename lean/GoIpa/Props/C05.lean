/-
  C05 — the Pedersen commitment computed with the precomputed tables and the signed-window
  recoder equals Σ vᵢ • Gᵢ, in every abelian group, for every window value and carry chain.
-/
import Mathlib.Tactic.Module
import Mathlib.Tactic.Ring
import Mathlib.Tactic.Linarith
import Mathlib.Tactic.LinearCombination
import Mathlib.Tactic.Abel
import Mathlib.Algebra.Module.NatInt
import GoIpa.Model.Precomp
import GoIpa.Model.Field
namespace GoIpa.C05
open GoIpa

/-- **Window extraction.** The limb / shift / mask expression of the code reads window `k` of
the scalar: `(s / 2^(w·k)) mod 2^w`, for every window width dividing 64. -/
theorem windowRaw_eq (w s k : Nat) (hw : 0 < w) (hdvd : w ∣ 64) :
    windowRaw w s k = s / 2 ^ (w * k) % 2 ^ w := by
  obtain ⟨q, hq⟩ := hdvd
  have hq0 : 0 < q := by
    rcases Nat.eq_zero_or_pos q with h | h
    · subst h; omega
    · exact h
  have hdiv : 64 / w = q := by rw [hq]; exact Nat.mul_div_cancel_left q hw
  unfold windowRaw limb
  simp only [hdiv, Nat.shiftRight_eq_div_pow, Nat.one_shiftLeft, Nat.and_two_pow_sub_one_eq_mod]
  set l := k / q
  set i := k % q
  have hi : i < q := Nat.mod_lt k hq0
  have hk : k = q * l + i := (Nat.div_add_mod k q).symm
  have hle : w * i + w ≤ 64 := by
    have : w * (i + 1) ≤ w * q := Nat.mul_le_mul_left w hi
    rw [← hq] at this; rw [Nat.mul_add, Nat.mul_one] at this; exact this
  have h64 : (2:ℕ) ^ 64 = 2 ^ (w * i) * 2 ^ (64 - w * i) := by
    rw [← Nat.pow_add]; congr 1; omega
  rw [h64, Nat.mod_mul_right_div_self]
  have hd : (2:ℕ) ^ w ∣ 2 ^ (64 - w * i) := Nat.pow_dvd_pow 2 (by omega)
  rw [Nat.mod_mod_of_dvd _ hd, Nat.div_div_eq_div_mul, ← Nat.pow_add]
  congr 3
  rw [hk, Nat.mul_add, ← Nat.mul_assoc, ← hq]

section recoder
variable {G : Type} [AddCommGroup G]

/-- loop invariant after `k` windows: the accumulator is `acc + m • P` with
`m + carry · 2^(w·k) = s mod 2^(w·k)` and the carry is 0 or 1 -/
def Inv (w s : Nat) (P acc : G) (k : Nat) (st : G × Nat) : Prop :=
  ∃ m : ℤ, st.1 = acc + m • P ∧ m + (st.2 : ℤ) * (((2 ^ w) ^ k : ℕ) : ℤ) = ((s % (2 ^ w) ^ k : ℕ) : ℤ) ∧ st.2 ≤ 1

/-- one recoder step in abstract form: window base `b = 2·half`, weight `B`, digit `d < b`,
incoming carry `c ≤ 1`, table row `tbl j = ((j+1)·B) • P` -/
theorem step_core (P acc st1 : G) (b half B S d c : ℕ) (m : ℤ) (hb : b = 2 * half) (hd : d < b)
    (hc : c ≤ 1) (hm : m + (c : ℤ) * (B : ℤ) = (S : ℤ)) (tbl : ℕ → G)
    (htbl : ∀ j, tbl j = (((j + 1 : ℕ) : ℤ) * (B : ℤ)) • P) (hacc : st1 = acc + m • P) :
    ∀ res : G × ℕ,
      res = (if d + c = 0 then (st1, c)
        else if d + c > half then ((if b - (d + c) ≠ 0 then st1 + -tbl (b - (d + c) - 1) else st1), 1)
        else (st1 + tbl (d + c - 1), 0)) →
      ∃ m' : ℤ, res.1 = acc + m' • P ∧ m' + (res.2 : ℤ) * ((B : ℤ) * (b : ℤ)) = (S : ℤ) + (B : ℤ) * (d : ℤ) ∧
        res.2 ≤ 1 ∧ (d < half → res.2 = 0) := by
  intro res hres
  by_cases hv0 : d + c = 0
  · have hd0 : d = 0 := by omega
    have hc0 : c = 0 := by omega
    subst hd0; subst hc0
    simp only [Nat.add_zero, ↓reduceIte] at hres
    subst hres
    exact ⟨m, hacc, by simpa using hm, by omega, fun _ => rfl⟩
  · simp only [hv0, ↓reduceIte] at hres
    by_cases hbig : d + c > half
    · simp only [hbig, ↓reduceIte] at hres
      have hvle : d + c ≤ b := by omega
      by_cases hz : b - (d + c) ≠ 0
      · simp only [hz, ne_eq, not_false_eq_true, ↓reduceIte] at hres
        subst hres
        refine ⟨m - ((b : ℤ) - ((d : ℤ) + (c : ℤ))) * (B : ℤ), ?_, ?_, le_refl 1, fun h => by omega⟩
        · have hj : ((b - (d + c) - 1 + 1 : ℕ) : ℤ) = (b : ℤ) - ((d : ℤ) + (c : ℤ)) := by
            have : b - (d + c) - 1 + 1 = b - (d + c) := by omega
            rw [this]; push_cast [Nat.cast_sub hvle]; ring
          simp only [htbl, hj, hacc]
          module
        · simp only [Nat.cast_one]
          linear_combination hm
      · simp only [hz, ↓reduceIte] at hres
        subst hres
        have hveq : (d : ℤ) + (c : ℤ) = (b : ℤ) := by omega
        refine ⟨m, hacc, ?_, le_refl 1, fun h => by omega⟩
        simp only [Nat.cast_one]
        linear_combination hm - (B : ℤ) * hveq
    · simp only [hbig, ↓reduceIte] at hres
      subst hres
      refine ⟨m + ((d : ℤ) + (c : ℤ)) * (B : ℤ), ?_, ?_, by omega, fun _ => rfl⟩
      · have hj : ((d + c - 1 + 1 : ℕ) : ℤ) = (d : ℤ) + (c : ℤ) := by
          have : d + c - 1 + 1 = d + c := by omega
          rw [this]; push_cast; ring
        simp only [htbl, hj, hacc]
        module
      · simp only [Nat.cast_zero]
        linear_combination hm

theorem step_inv (w s : Nat) (hw : 0 < w) (hdvd : w ∣ 64) (P acc : G) (tbl : Nat → Nat → G)
    (htbl : ∀ k j, tbl k j = ((j + 1) * 2 ^ (w * k)) • P) (k : Nat) (st : G × Nat)
    (h : Inv w s P acc k st) :
    Inv w s P acc (k + 1) (precompStep w tbl s st k) ∧
      (s / (2 ^ w) ^ k % 2 ^ w < 2 ^ (w - 1) → (precompStep w tbl s st k).2 = 0) := by
  obtain ⟨m, hacc, hm, hc⟩ := h
  have hbpos : 0 < 2 ^ w := Nat.two_pow_pos w
  have hdlt : s / (2 ^ w) ^ k % 2 ^ w < 2 ^ w := Nat.mod_lt _ hbpos
  have hsucc : s % (2 ^ w) ^ (k + 1) = s % (2 ^ w) ^ k + (2 ^ w) ^ k * (s / (2 ^ w) ^ k % 2 ^ w) := Nat.mod_pow_succ
  have hhalf : 2 ^ w = 2 * 2 ^ (w - 1) := by
    rw [← Nat.pow_succ']; congr 1; omega
  have hraw : windowRaw w s k = s / (2 ^ w) ^ k % 2 ^ w := by
    rw [windowRaw_eq w s k hw hdvd, Nat.pow_mul]
  have htblZ : ∀ j, tbl k j = (((j + 1 : ℕ) : ℤ) * (((2 ^ w) ^ k : ℕ) : ℤ)) • P := by
    intro j
    rw [htbl, Nat.pow_mul, ← natCast_zsmul]
    push_cast
    rfl
  obtain ⟨m', h1, h2, h3, h4⟩ := step_core P acc st.1 (2 ^ w) (2 ^ (w - 1)) ((2 ^ w) ^ k) (s % (2 ^ w) ^ k)
    (s / (2 ^ w) ^ k % 2 ^ w) st.2 m hhalf hdlt hc hm (tbl k) htblZ hacc (precompStep w tbl s st k) (by
      unfold precompStep
      simp only [hraw, Nat.one_shiftLeft])
  refine ⟨⟨m', h1, ?_, h3⟩, h4⟩
  rw [hsucc, pow_succ, Nat.cast_add, Nat.cast_mul, Nat.cast_mul]
  exact h2

theorem fold_inv (w s : Nat) (hw : 0 < w) (hdvd : w ∣ 64) (P acc : G) (tbl : Nat → Nat → G)
    (htbl : ∀ k j, tbl k j = ((j + 1) * 2 ^ (w * k)) • P) (n : Nat) :
    Inv w s P acc n ((List.range n).foldl (precompStep w tbl s) (acc, 0)) := by
  induction n with
  | zero => exact ⟨0, by simp, by simp [Nat.mod_one], by simp⟩
  | succ n ih =>
    rw [List.range_succ, List.foldl_append]
    exact (step_inv w s hw hdvd P acc tbl htbl n _ ih).1

/-- **The recoder is correct.** For every window width `w` dividing 64 (the code uses 8 and 16),
every table with `tbl k j = ((j+1)·2^(w·k)) • P`, every accumulator and every scalar below
`2^255`, `PrecompPoint.ScalarMul` adds exactly `s • P` — whatever the window values and carry
chains are. -/
theorem precompScalarMul_spec (w s : Nat) (hw : 0 < w) (hdvd : w ∣ 64) (hs : s < 2 ^ 255)
    (P acc : G) (tbl : Nat → Nat → G) (htbl : ∀ k j, tbl k j = ((j + 1) * 2 ^ (w * k)) • P) :
    precompScalarMul w tbl s acc = acc + s • P := by
  obtain ⟨q, hq⟩ := hdvd
  have hq0 : 0 < q := by
    rcases Nat.eq_zero_or_pos q with h | h
    · subst h; omega
    · exact h
  have hK : 256 / w = 4 * q := by
    have : 256 = w * (4 * q) := by
      rw [Nat.mul_left_comm, ← hq]
    rw [this]; exact Nat.mul_div_cancel_left _ hw
  have hdvd : w ∣ 64 := ⟨q, hq⟩
  unfold precompScalarMul
  rw [hK]
  obtain ⟨n, hn⟩ : ∃ n, 4 * q = n + 1 := ⟨4 * q - 1, by omega⟩
  rw [hn, List.range_succ, List.foldl_append]
  have ih := fold_inv w s hw hdvd P acc tbl htbl n
  obtain ⟨hinv, hcarry⟩ := step_inv w s hw hdvd P acc tbl htbl n _ ih
  -- the top window of a scalar below 2^255 is below 2^(w-1): no final carry
  have hwn : w * n + w = 256 := by
    have : w * (n + 1) = 256 := by rw [← hn, Nat.mul_left_comm, ← hq]
    rw [Nat.mul_add, Nat.mul_one] at this; exact this
  have htop : s / (2 ^ w) ^ n % 2 ^ w < 2 ^ (w - 1) := by
    apply Nat.lt_of_le_of_lt (Nat.mod_le _ _)
    rw [← Nat.pow_mul]
    apply Nat.div_lt_of_lt_mul
    rw [← Nat.pow_add]
    have : w * n + (w - 1) = 255 := by omega
    rw [this]; exact hs
  have hc0 := hcarry htop
  obtain ⟨m, hacc, hm, _⟩ := hinv
  simp only [List.foldl_cons, List.foldl_nil]
  rw [hacc]
  rw [hc0] at hm
  have hfull : s % (2 ^ w) ^ (n + 1) = s := by
    apply Nat.mod_eq_of_lt
    rw [← Nat.pow_mul, Nat.mul_add, Nat.mul_one, hwn]
    exact Nat.lt_trans hs (by norm_num)
  rw [hfull] at hm
  have : m = (s : ℤ) := by simpa using hm
  rw [this, natCast_zsmul]

/-- every scalar-field element satisfies the bound the recoder needs -/
theorem fr_lt_pow255 (s : Fr) : s.val < 2 ^ 255 := Nat.lt_trans s.lt (by decide)

/-- **The bound is necessary**: over the group ℤ with `P = 1` the 8-bit recoder maps the
256-bit all-ones scalar to `-1`, not to the scalar (the carry out of the top window is dropped). -/
theorem precompScalarMul_needs_bound :
    precompScalarMul 8 (fun k j => (((j + 1) * 2 ^ (8 * k) : ℕ) : ℤ)) (2 ^ 256 - 1) 0 = -1 := by
  decide

end recoder

section msm
variable {G : Type} [AddCommGroup G]

/-- **The 256-MSM.** With tables built over the basis `Gs` (16-bit windows for the first `lim`
points, 8-bit for the rest), zero scalars skipped, `MSMPrecomp.MSM` returns `Σ vᵢ • Gᵢ`. -/
theorem precompMSM_spec (lim : Nat) (Gs : Nat → G) (tbls : Nat → Nat → Nat → G)
    (htbl : ∀ i k j, tbls i k j = ((j + 1) * 2 ^ ((if i < lim then 16 else 8) * k)) • Gs i)
    (scalars : List Nat) (hs : ∀ s ∈ scalars, s < 2 ^ 255) :
    precompMSM lim tbls scalars = ((List.zipIdx scalars).map fun e => e.1 • Gs e.2).sum := by
  unfold precompMSM
  have key : ∀ (l : List (Nat × Nat)) (acc : G), (∀ e ∈ l, e.1 < 2 ^ 255) →
      l.foldl (fun acc (e : Nat × Nat) =>
        if e.1 = 0 then acc else precompScalarMul (if e.2 < lim then 16 else 8) (tbls e.2) e.1 acc) acc
        = acc + (l.map fun e => e.1 • Gs e.2).sum := by
    intro l
    induction l with
    | nil => intro acc _; simp
    | cons e l ih =>
      intro acc hl
      simp only [List.foldl_cons, List.map_cons, List.sum_cons]
      have he := hl e (by simp)
      rw [ih _ (fun x hx => hl x (by simp [hx]))]
      by_cases h0 : e.1 = 0
      · simp [h0]
      · simp only [h0, ↓reduceIte]
        have hw : (0:ℕ) < (if e.2 < lim then 16 else 8) := by split <;> norm_num
        have hd : (if e.2 < lim then 16 else 8) ∣ 64 := by split <;> norm_num
        rw [precompScalarMul_spec _ e.1 hw hd he (Gs e.2) acc (tbls e.2) (fun k j => htbl e.2 k j)]
        abel
  rw [key _ 0 (by
    intro e he
    exact hs e.1 (List.fst_mem_of_mem_zipIdx he))]
  simp

/-! ### the tables themselves: `NewPrecompPoint` -/

theorem buildWindow_length (base : G) (n : Nat) (curr : G) : (buildWindow base n curr).length = n := by
  induction n generalizing curr with
  | zero => rfl
  | succ n ih => simp [buildWindow, ih]

/-- the inner loop `windows[i][j] = curr; curr += base`: entry `j` is `curr + j • base` -/
theorem buildWindow_get (base : G) (n : Nat) (curr : G) (j : Nat) (hj : j < n) :
    (buildWindow base n curr)[j]? = some (curr + j • base) := by
  induction n generalizing curr j with
  | zero => omega
  | succ n ih =>
    cases j with
    | zero => simp [buildWindow]
    | succ j =>
      simp only [buildWindow, List.getElem?_cons_succ]
      rw [ih (curr + base) j (by omega)]
      congr 1
      rw [succ_nsmul]; abel

theorem buildTable_length (w : Nat) (shift : G → G) (n : Nat) (base : G) :
    (buildTable w shift n base).length = n := by
  induction n generalizing base with
  | zero => rfl
  | succ n ih => simp [buildTable, ih]

/-- **The table `NewPrecompPoint` builds.** With the base update `point ← 2^w • point` between
windows (the code's `point.ScalarMul(&point, &specialWindow)`), entry `j` of window `k` is
`(j+1)·2^(w·k) • P` — for every window width, every number of windows and every point. -/
theorem buildTable_spec (w : Nat) (shift : G → G) (hshift : ∀ b, shift b = (2 ^ w) • b) (n : Nat) (P : G)
    (k : Nat) (hk : k < n) (j : Nat) (hj : j < 1 <<< (w - 1)) :
    ((buildTable w shift n P)[k]?.bind fun win => win[j]?) = some (((j + 1) * 2 ^ (w * k)) • P) := by
  induction n generalizing P k with
  | zero => omega
  | succ n ih =>
    cases k with
    | zero =>
      simp only [buildTable, List.getElem?_cons_zero, Option.bind_some]
      rw [buildWindow_get P _ P j hj]
      congr 1
      rw [Nat.mul_zero, pow_zero, Nat.mul_one, succ_nsmul]; abel
    | succ k =>
      simp only [buildTable, List.getElem?_cons_succ]
      rw [ih (shift P) k (by omega), hshift, ← mul_nsmul']
      congr 2
      rw [Nat.mul_succ, pow_add]; ring

/-- the table as the function `PrecompPoint.ScalarMul` indexes -/
def tableFn (t : List (List G)) (k j : Nat) : G := ((t[k]?.bind fun win => win[j]?).getD 0)

theorem tableFn_built (w : Nat) (shift : G → G) (hshift : ∀ b, shift b = (2 ^ w) • b) (n : Nat) (P : G)
    (k : Nat) (hk : k < n) (j : Nat) (hj : j < 1 <<< (w - 1)) :
    tableFn (buildTable w shift n P) k j = ((j + 1) * 2 ^ (w * k)) • P := by
  unfold tableFn; rw [buildTable_spec w shift hshift n P k hk j hj]; rfl

/-- the recoder only reads entries `j < 2^(w-1)` of window `k` -/
theorem precompStep_congr (w : Nat) (hw : 0 < w) (tbl tbl' : Nat → Nat → G) (s : Nat) (st : G × Nat) (k : Nat)
    (h : ∀ j, j < 1 <<< (w - 1) → tbl k j = tbl' k j) :
    precompStep w tbl s st k = precompStep w tbl' s st k := by
  have hhalf : 1 <<< w = 2 * (1 <<< (w - 1)) := by
    simp only [Nat.one_shiftLeft]
    rw [← Nat.pow_succ']; congr 1; omega
  unfold precompStep
  simp only
  by_cases h0 : windowRaw w s k + st.2 = 0
  · simp [h0]
  · simp only [h0, ↓reduceIte]
    by_cases hbig : windowRaw w s k + st.2 > 1 <<< (w - 1)
    · simp only [hbig, ↓reduceIte]
      by_cases hz : 1 <<< w - (windowRaw w s k + st.2) ≠ 0
      · simp only [hz, ne_eq, not_false_eq_true, ↓reduceIte]
        rw [h _ (by omega)]
      · simp only [hz, ↓reduceIte]
    · simp only [hbig, ↓reduceIte]
      rw [h _ (by omega)]

theorem precompScalarMul_congr (w : Nat) (hw : 0 < w) (tbl tbl' : Nat → Nat → G) (s : Nat) (acc : G)
    (h : ∀ k, k < 256 / w → ∀ j, j < 1 <<< (w - 1) → tbl k j = tbl' k j) :
    precompScalarMul w tbl s acc = precompScalarMul w tbl' s acc := by
  unfold precompScalarMul
  have key : ∀ (l : List Nat) (st : G × Nat), (∀ k ∈ l, k < 256 / w) →
      l.foldl (precompStep w tbl s) st = l.foldl (precompStep w tbl' s) st := by
    intro l
    induction l with
    | nil => intro st _; rfl
    | cons k l ih =>
      intro st hl
      simp only [List.foldl_cons]
      rw [precompStep_congr w hw tbl tbl' s st k (h k (hl k (by simp)))]
      exact ih _ (fun x hx => hl x (by simp [hx]))
  rw [key _ _ (fun k hk => List.mem_range.mp hk)]

/-- **`NewPrecompPoint` followed by `PrecompPoint.ScalarMul`**: with the table the constructor
builds (`256/w` windows of `2^(w-1)` entries, base multiplied by `2^w` between windows), the
recoder adds exactly `s • P`, for every scalar below `2^255`. -/
theorem precompScalarMul_built (w s : Nat) (hw : 0 < w) (hdvd : w ∣ 64) (hs : s < 2 ^ 255)
    (shift : G → G) (hshift : ∀ b, shift b = (2 ^ w) • b) (P acc : G) :
    precompScalarMul w (tableFn (buildTable w shift (256 / w) P)) s acc = acc + s • P := by
  rw [precompScalarMul_congr w hw _ (fun k j => ((j + 1) * 2 ^ (w * k)) • P) s acc
    (fun k hk j hj => tableFn_built w shift hshift (256 / w) P k hk j hj)]
  exact precompScalarMul_spec w s hw hdvd hs P acc _ (fun _ _ => rfl)

/-- **`NewPrecompMSM` followed by `MSMPrecomp.MSM`** over the tables the constructor builds. -/
theorem precompMSM_built (lim : Nat) (Gs : Nat → G) (scalars : List Nat) (hs : ∀ s ∈ scalars, s < 2 ^ 255) :
    precompMSM lim (fun i => tableFn (buildTable (if i < lim then 16 else 8)
        (fun b => (2 ^ (if i < lim then 16 else 8)) • b) (256 / (if i < lim then 16 else 8)) (Gs i))) scalars
      = ((List.zipIdx scalars).map fun e => e.1 • Gs e.2).sum := by
  have hcongr : precompMSM lim (fun i => tableFn (buildTable (if i < lim then 16 else 8)
        (fun b => (2 ^ (if i < lim then 16 else 8)) • b) (256 / (if i < lim then 16 else 8)) (Gs i))) scalars
      = precompMSM lim (fun i k j => ((j + 1) * 2 ^ ((if i < lim then 16 else 8) * k)) • Gs i) scalars := by
    unfold precompMSM
    apply List.foldl_ext
    intro acc e _
    by_cases h0 : e.1 = 0
    · simp [h0]
    · simp only [h0, ↓reduceIte]
      have hw : (0:ℕ) < (if e.2 < lim then 16 else 8) := by split <;> norm_num
      exact precompScalarMul_congr _ hw _ _ _ _
        (fun k hk j hj => tableFn_built _ _ (fun _ => rfl) _ (Gs e.2) k hk j hj)
  rw [hcongr]
  exact precompMSM_spec lim Gs _ (fun _ _ _ => rfl) scalars hs

end msm
end GoIpa.C05
