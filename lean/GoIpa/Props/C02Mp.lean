/-
  C02 — the implementation-shaped multiproof verifier (grouped evaluations, batch-inverted
  denominators over the whole domain, zero-skipping accumulation, table lookups for the MSM
  scalars) decides exactly what the reference verifier decides, on every input.
-/
import GoIpa.Lemmas.MpVerifier
import GoIpa.Props.C02
namespace GoIpa.C02
open GoIpa GoIpa.Mp GoIpa.Grouping

variable {F G : Type} [Field F] [DecidableEq F] [AddCommGroup G] [Module F G]
variable (enc : Enc F G)

/-- the reference verifier of the multiproof: the textbook equations, nothing shared with the
implementation's tables or grouping -/
def specMpVerify (cfg : IpaCfg F G) (tr : Tr) (proof : MultiProof F G) (Cs : List G) (ys : List F) (zs : List Nat) :
    Except VErr Bool × Tr :=
  let tr0 := tr.domainSep Label.multiproof
  if Cs.length ≠ ys.length then (.error .lenCY, tr0)
  else if Cs.length ≠ zs.length then (.error .lenCZ, tr0)
  else if Cs.length = 0 then (.error .zeroQueries, tr0)
  else
    let rc := (absorbStmt enc tr Cs ys zs).challenge enc Label.r
    let pows := powersOf rc.1 Cs.length
    let tc := (rc.2.appendPoint enc proof.D Label.D).challenge enc Label.t
    let t := tc.1
    -- g₂(t) = Σ rⁱ yᵢ / (t − zᵢ)
    let g2 := ((List.range Cs.length).map fun i =>
        (t - ((zs.getD i 0 : Nat) : F))⁻¹ * (pows.getD i 0 * ys.getD i 0)).sum
    -- E = Σ (rⁱ / (t − zᵢ)) • Cᵢ
    let E := msm Cs (mpScalars pows zs t)
    specIpaVerify enc cfg (tc.2.appendPoint enc E Label.E) (E - proof.D) proof.ipa t g2

/-- `g₂(t)` of the implementation for arbitrary claimed values -/
theorem verifier_g2_any (N : Nat) (ys pows : List F) (zs : List Nat) (t : F)
    (hl : ys.length = zs.length) (hp : pows.length = ys.length) (hz : ∀ z ∈ zs, z < N) :
    (List.zip (groupedEvals N (List.zip pows (List.zip ys zs)) (List.replicate N 0))
        (batchInvert ((List.range N).map fun (i : Nat) => t - (i : F)))).foldl
        (fun (acc : F) (e : F × F) => if e.1 = 0 then acc else acc + e.1 * e.2) 0
      = ((List.range ys.length).map fun i =>
          (t - ((zs.getD i 0 : Nat) : F))⁻¹ * (pows.getD i 0 * ys.getD i 0)).sum := by
  have hmem : ∀ e ∈ List.zip pows (List.zip ys zs), e.2.2 < N := by
    intro e he
    exact hz _ (List.of_mem_zip (List.of_mem_zip he).2).2
  obtain ⟨glen, gsum⟩ := groupedEvals_sum N (fun z => (t - ((z : Nat) : F))⁻¹)
    (List.zip pows (List.zip ys zs)) (List.replicate N 0) (by simp) hmem
  rw [g2_fold, zero_add, zip_map_sum_range _ _ (by rw [glen, batchInvert_length]; simp), glen]
  have hL : ((List.range N).map fun i =>
      (groupedEvals N (List.zip pows (List.zip ys zs)) (List.replicate N 0)).getD i 0 *
        (batchInvert ((List.range N).map fun (i : Nat) => t - (i : F))).getD i 0).sum
      = ((List.range N).map fun z => (t - ((z : Nat) : F))⁻¹ *
        (groupedEvals N (List.zip pows (List.zip ys zs)) (List.replicate N 0)).getD z 0).sum := by
    apply congrArg
    apply List.map_congr_left
    intro z hz'
    rw [denInv_getD N t z (List.mem_range.mp hz')]; ring
  rw [hL, gsum]
  have h0 : ((List.range N).map fun z => (t - ((z : Nat) : F))⁻¹ * (List.replicate N (0 : F)).getD z 0).sum = 0 := by
    apply List.sum_eq_zero
    intro x hx
    obtain ⟨z, _, rfl⟩ := List.mem_map.mp hx
    rw [replicate_getD_zero, mul_zero]
  rw [h0, zero_add, zip3_sum_range _ pows ys zs 0 0 0 (by rw [hp]) hl, hp]

/-- **The multiproof verifier is the reference verifier.**  For every field, module, hash,
configuration with `2^k` basis points, transcript, proof, commitments, claimed values and domain
indices `zᵢ < N` (honest or not, any lengths): `CheckMultiProof` returns exactly what the
reference verifier returns — same decision or error, same transcript state. -/
theorem mpVerify_eq_spec (cfg : IpaCfg F G) (hsrs : cfg.srs.length = 2 ^ cfg.rounds) (tr : Tr)
    (proof : MultiProof F G) (Cs : List G) (ys : List F) (zs : List Nat) (hz : ∀ z ∈ zs, z < cfg.N) :
    mpVerify enc cfg tr proof Cs ys zs = specMpVerify enc cfg tr proof Cs ys zs := by
  unfold mpVerify specMpVerify
  by_cases h1 : Cs.length ≠ ys.length
  · rw [if_pos h1, if_pos h1]
  rw [if_neg h1, if_neg h1]
  by_cases h2 : Cs.length ≠ zs.length
  · rw [if_pos h2, if_pos h2]
  rw [if_neg h2, if_neg h2]
  by_cases h3 : Cs.length = 0
  · rw [if_pos h3, if_pos h3]
  rw [if_neg h3, if_neg h3]
  have e1 : Cs.length = ys.length := by simpa using h1
  have e2 : Cs.length = zs.length := by simpa using h2
  set rc := (absorbStmt enc tr Cs ys zs).challenge enc Label.r with hrc
  set pows := powersOf rc.1 Cs.length with hpows
  have hpl : pows.length = ys.length := by rw [hpows, powersOf_length, e1]
  set tc := (rc.2.appendPoint enc proof.D Label.D).challenge enc Label.t with htc
  have hg2 := verifier_g2_any cfg.N ys pows zs tc.1 (by rw [← e1, e2]) hpl hz
  have hsc := verifier_scalars cfg.N pows zs tc.1 hz
  unfold groupedEvals at hg2
  rw [← e1] at hg2
  rw [← ipaVerify_eq_spec enc cfg hsrs]
  show ipaVerify enc cfg
      (Tr.appendPoint enc tc.2
        (msm Cs (List.zipWith (fun (p : F) (z : Nat) =>
          p * (batchInvert ((List.range cfg.N).map fun (i : Nat) => tc.1 - (i : F))).getD z 0) pows zs)) Label.E)
      (msm Cs (List.zipWith (fun (p : F) (z : Nat) =>
          p * (batchInvert ((List.range cfg.N).map fun (i : Nat) => tc.1 - (i : F))).getD z 0) pows zs) - proof.D)
      proof.ipa tc.1
      ((List.zip (List.foldl (fun (ge : List F) (e : F × F × Nat) => ge.set e.2.2 (ge.getD e.2.2 0 + e.1 * e.2.1))
          (List.replicate cfg.N 0) (List.zip pows (List.zip ys zs)))
        (batchInvert ((List.range cfg.N).map fun (i : Nat) => tc.1 - (i : F)))).foldl
        (fun (acc : F) (e : F × F) => if e.1 = 0 then acc else acc + e.1 * e.2) 0)
    = _
  rw [hsc, hg2]

end GoIpa.C02
