/-
  The theorems about abstract modules, transported to the functions that are executed.

  `Pt = Proj Fp` with the model's projective formulas is what the driver runs against the Go code
  (same proof bytes, same decisions, same challenges — the correspondence run).  `BW`, the
  Banderwagon group, is an `Fr`-vector space (`C08.card_BW`: it has exactly `r` elements).  The
  relation "`p : Pt` represents `x : BW`" is preserved by every group operation of the model,
  related elements have the same 32-byte encoding and the same `Equal` test (`C07`, `C08`), so by
  `Lemmas/Simulation` the executable prover and verifier compute, on representatives, exactly what
  the abstract ones compute on group elements.  Hence:

  * `multiproof_complete_exec` — completeness of `CreateMultiProof`/`CheckMultiProof` **for the
    executable model itself**: real field arithmetic, real curve formulas on arbitrary projective
    representatives (any `Z ≠ 0`, either sign), real SHA-256 transcript, any basis of valid points;
  * `ipa_opens_polynomial_exec` — the same for a stand-alone IPA opening at any field point.

  No assumption about the group is left; the only hypothesis is the one the protocol itself needs
  (the Fiat–Shamir challenges avoid the ≤ n+8 exceptional values).
-/
import GoIpa.Lemmas.Simulation
import GoIpa.Props.C08Concrete
import GoIpa.Props.Concrete
import GoIpa.Props.C04Value
import GoIpa.Model.Config
namespace GoIpa.Exec
open GoIpa GoIpa.C08 GoIpa.Mp

/-- `p` is a valid representative (any `Z ≠ 0`) of a point the decoder accepts -/
def IsRep (p : Pt) : Prop := ∃ g : Sub bandersnatch, Rep bandersnatch p g

/-- "`p` represents the group element `x`" -/
def ρ (p : Pt) (x : BW) : Prop := ∃ g : Sub bandersnatch, Rep bandersnatch p g ∧ Banderwagon.mk bandersnatch g = x

open Classical in
/-- the group element a valid representative stands for -/
noncomputable def toBW (p : Pt) : BW :=
  if h : IsRep p then Banderwagon.mk bandersnatch (Classical.choose h) else 0

theorem ρ_toBW {p : Pt} (h : IsRep p) : ρ p (toBW p) := by
  unfold toBW
  rw [dif_pos h]
  exact ⟨Classical.choose h, Classical.choose_spec h, rfl⟩

theorem ρ_map_toBW {l : List Pt} (h : ∀ p ∈ l, IsRep p) : List.Forall₂ ρ l (l.map toBW) := by
  induction l with
  | nil => exact List.Forall₂.nil
  | cons p l ih =>
    exact List.Forall₂.cons (ρ_toBW (h p List.mem_cons_self)) (ih fun q hq => h q (List.mem_cons_of_mem _ hq))

/-- the 32-byte encoding of a group element: the encoding of any of its representatives -/
noncomputable def bwBytes (x : BW) : Bytes := Pt.bytes (Proj.ofAff (Quotient.out x).1)

theorem rep_ofAff (g : Sub bandersnatch) : Rep bandersnatch (Proj.ofAff g.1) g := by
  refine ⟨by simp [Proj.ofAff], ?_⟩
  apply aff_ext <;> simp [Proj.ofAff, Proj.toAff]

theorem rep_valid {p : Pt} {g : Sub bandersnatch} (hp : Rep bandersnatch p g) : C07.Valid bandersnatch p :=
  ⟨hp.1, by rw [hp.2]; exact g.2.on⟩

theorem bytes_of_ρ {p : Pt} {x : BW} (h : ρ p x) : Pt.bytes p = bwBytes x := by
  obtain ⟨g, hg, rfl⟩ := h
  unfold bwBytes
  set g' := Quotient.out (Banderwagon.mk bandersnatch g) with hg'
  have hmk : Banderwagon.mk bandersnatch g = Banderwagon.mk bandersnatch g' := by
    rw [hg']; exact (Quotient.out_eq _).symm
  have heq := (pt_equal_iff hg (rep_ofAff g')).mpr hmk
  exact (C07.equal_iff_bytes_pt p _ (rep_valid hg) (rep_valid (rep_ofAff g'))).mp heq

open Classical in
/-- the encoders of the implementation, on group elements -/
noncomputable def encBW : Enc Fr BW where
  ptBytes := bwBytes
  scBytes := Zp.bytesLE
  chal := challengeOfStream
  eqG := fun x y => decide (x = y)

theorem encBW_refl (x : BW) : encBW.eqG x x = true := by simp [encBW]

theorem mk_sub (g h : Sub bandersnatch) :
    Banderwagon.mk bandersnatch (g - h) = Banderwagon.mk bandersnatch g - Banderwagon.mk bandersnatch h :=
  map_sub (QuotientAddGroup.mk' (Sub.T2 bandersnatch)) g h

open Classical in
/-- **The executable group operations respect the representation relation.** -/
theorem rel : Sim.Rel encSha encBW ρ where
  zero := ⟨0, rep_zero bandersnatch, rfl⟩
  add := by
    rintro a a' b b' ⟨g, hg, rfl⟩ ⟨g', hg', rfl⟩
    exact ⟨g + g', pt_add_rep hg hg', Banderwagon.mk_add bandersnatch g g'⟩
  sub := by
    rintro a a' b b' ⟨g, hg, rfl⟩ ⟨g', hg', rfl⟩
    exact ⟨g - g', pt_sub_rep hg hg', mk_sub g g'⟩
  smul := by
    rintro s a b ⟨g, hg, rfl⟩
    exact ⟨s.val • g, pt_smul_rep hg s, by rw [mk_nsmul, smul_def]⟩
  bytes := fun h => bytes_of_ρ h
  sc := rfl
  chal := rfl
  eq := by
    rintro a a' b b' ⟨g, hg, rfl⟩ ⟨g', hg', rfl⟩
    show Pt.equal a a' = decide _
    have := pt_equal_iff hg hg'
    by_cases h : Banderwagon.mk bandersnatch g = Banderwagon.mk bandersnatch g'
    · rw [this.mpr h]; simp [h]
    · have hf : Pt.equal a a' = false := by
        cases hb : Pt.equal a a'
        · rfl
        · exact absurd (this.mp hb) h
      rw [hf]; simp [h]

/-- the configuration of the implementation over an arbitrary basis: real scalar side -/
def execCfg (srs : List Pt) (Q : Pt) : IpaCfg Fr Pt where
  srs := srs
  Q := Q
  weights := Weights.new 256
  N := 256
  rounds := 8
  inDomain := frInDomain 256

/-- the driver's configuration is this one at the generated basis -/
theorem mkConfig_eq : mkConfig = execCfg (generateRandomPoints 256) Pt.generator := rfl

theorem cfgRel (srs : List Pt) (Q : Pt) (hsrs : ∀ p ∈ srs, IsRep p) (hQ : IsRep Q) :
    Sim.CfgRel ρ (execCfg srs Q) (Concrete.realCfg (srs.map toBW) (toBW Q)) where
  srs := ρ_map_toBW hsrs
  Q := ρ_toBW hQ
  weights := rfl
  N := rfl
  rounds := rfl
  inDomain := rfl

/-- the executable commitment represents the group-level commitment -/
theorem commit_rel (srs : List Pt) (hsrs : ∀ p ∈ srs, IsRep p) (f : List Fr) :
    ρ (msm srs f) (msm (srs.map toBW) f) := Sim.msm_rel rel (ρ_map_toBW hsrs) f

theorem commit_isRep (srs : List Pt) (hsrs : ∀ p ∈ srs, IsRep p) (f : List Fr) : IsRep (msm srs f) := by
  obtain ⟨g, hg, _⟩ := commit_rel srs hsrs f
  exact ⟨g, hg⟩

/-- **Multiproof completeness of the executable model.**  For every basis of 256 valid points and
valid `Q` (any representatives), every honest statement whose commitments are handed over in *any*
representation (`Cs` merely represent `Σⱼ fᵢ[j]·Gⱼ`: any `Z`, either sign), every worker count and
arrival order: the executable `CreateMultiProof` — field arithmetic modulo `r`, projective
Bandersnatch formulas modulo `p`, SHA-256 transcript — returns a proof which the executable
`CheckMultiProof` accepts without error, both ending in the same transcript state, provided the
challenges avoid the exceptional values.  (`s` is the abstract prover state; its challenges are the
executable ones because the transcripts coincide.) -/
theorem multiproof_complete_exec (srs : List Pt) (Q : Pt) (hlen : srs.length = 256)
    (hsrs : ∀ p ∈ srs, IsRep p) (hQ : IsRep Q) (tr : Tr) (fs : List (List Fr)) (zs : List Nat)
    (hon : C01.Honest (Concrete.realCfg (srs.map toBW) (toBW Q)) fs zs)
    (Cs : List Pt) (hCs : List.Forall₂ ρ Cs (fs.map (msm (srs.map toBW))))
    (w : Nat) (hw : 1 ≤ w) (order : List Nat) (hperm : order.Perm (List.range w)) :
    let cfgG := Concrete.realCfg (srs.map toBW) (toBW Q)
    let s := proverState encBW cfgG tr (fs.map (msm cfgG.srs)) fs zs w order
    (∀ i, i < fs.length → s.t ≠ ((zs.getD i 0 : Nat) : Fr)) →
    (∀ x ∈ C04.honestChallenges encBW cfgG s.tr (s.E - s.D) (List.zipWith (· - ·) s.h s.g) s.t, x ≠ 0) →
    ∃ proof, (mpProve encSha (execCfg srs Q) tr Cs fs zs w order).1 = some proof ∧
      mpVerify encSha (execCfg srs Q) tr proof Cs (honestYs fs zs) zs
        = (.ok true, (mpProve encSha (execCfg srs Q) tr Cs fs zs w order).2) := by
  intro cfgG s ht hch
  obtain ⟨proof₂, hp₂, hv₂⟩ := Concrete.multiproof_complete_real encBW encBW_refl (srs.map toBW)
    (by rw [List.length_map]; exact hlen) (toBW Q) tr fs zs hon w hw order hperm ht hch
  simp only [show (Concrete.realCfg (srs.map toBW) (toBW Q)).srs = srs.map toBW from rfl] at hp₂ hv₂
  have hc := cfgRel srs Q hsrs hQ
  obtain ⟨hrel, htr⟩ := Sim.mpProve_rel rel hc tr hCs fs zs w order
  rw [hp₂] at hrel
  cases hp₁ : (mpProve encSha (execCfg srs Q) tr Cs fs zs w order).1 with
  | none => rw [hp₁] at hrel; exact absurd hrel (by simp [Sim.OptRel])
  | some proof₁ =>
    rw [hp₁] at hrel
    refine ⟨proof₁, rfl, ?_⟩
    rw [Sim.mpVerify_eq rel hc tr hrel hCs, htr]
    exact hv₂

/-- the commitments computed by the executable `Commit` itself qualify -/
theorem multiproof_complete_exec_commit (srs : List Pt) (Q : Pt) (hlen : srs.length = 256)
    (hsrs : ∀ p ∈ srs, IsRep p) (hQ : IsRep Q) (tr : Tr) (fs : List (List Fr)) (zs : List Nat)
    (hon : C01.Honest (Concrete.realCfg (srs.map toBW) (toBW Q)) fs zs)
    (w : Nat) (hw : 1 ≤ w) (order : List Nat) (hperm : order.Perm (List.range w)) :
    let cfgG := Concrete.realCfg (srs.map toBW) (toBW Q)
    let s := proverState encBW cfgG tr (fs.map (msm cfgG.srs)) fs zs w order
    let Cs := fs.map (msm srs)
    (∀ i, i < fs.length → s.t ≠ ((zs.getD i 0 : Nat) : Fr)) →
    (∀ x ∈ C04.honestChallenges encBW cfgG s.tr (s.E - s.D) (List.zipWith (· - ·) s.h s.g) s.t, x ≠ 0) →
    ∃ proof, (mpProve encSha (execCfg srs Q) tr Cs fs zs w order).1 = some proof ∧
      mpVerify encSha (execCfg srs Q) tr proof Cs (honestYs fs zs) zs
        = (.ok true, (mpProve encSha (execCfg srs Q) tr Cs fs zs w order).2) := by
  intro cfgG s Cs
  have hCs : List.Forall₂ ρ Cs (fs.map (msm (srs.map toBW))) := by
    show List.Forall₂ ρ (fs.map (msm srs)) (fs.map (msm (srs.map toBW)))
    rw [List.forall₂_map_left_iff, List.forall₂_map_right_iff]
    exact List.forall₂_same.mpr fun f _ => commit_rel srs hsrs f
  exact multiproof_complete_exec srs Q hlen hsrs hQ tr fs zs hon Cs hCs w hw order hperm

/-- **A stand-alone IPA opening of the executable model proves `p(z)`** for every field point `z`
(in the domain or not), where `p` is the interpolant of the committed evaluations. -/
theorem ipa_opens_polynomial_exec (srs : List Pt) (Q : Pt) (hlen : srs.length = 256)
    (hsrs : ∀ p ∈ srs, IsRep p) (hQ : IsRep Q) (tr : Tr) (f : List Fr) (hf : f.length = 256) (z : Fr)
    (C : Pt) (hC : ρ C (msm (srs.map toBW) f))
    (hgood : ∀ x ∈ C04.honestChallenges encBW (Concrete.realCfg (srs.map toBW) (toBW Q)) tr
      (msm (srs.map toBW) f) f z, x ≠ 0) :
    ∃ proof, (ipaProve encSha (execCfg srs Q) tr C f z).1 = some proof ∧
      ipaVerify encSha (execCfg srs Q) tr C proof z ((C04.interp 256 f).eval z)
        = (.ok true, (ipaProve encSha (execCfg srs Q) tr C f z).2) := by
  obtain ⟨proof₂, hp₂, hv₂⟩ := C04.ipa_opens_polynomial_real encBW encBW_refl (srs.map toBW)
    (by rw [List.length_map]; exact hlen) (toBW Q) tr f hf z hgood
  have hc := cfgRel srs Q hsrs hQ
  obtain ⟨hrel, htr⟩ := Sim.ipaProve_rel rel hc tr hC f z
  rw [hp₂] at hrel
  cases hp₁ : (ipaProve encSha (execCfg srs Q) tr C f z).1 with
  | none => rw [hp₁] at hrel; exact absurd hrel (by simp [Sim.OptRel])
  | some proof₁ =>
    rw [hp₁] at hrel
    refine ⟨proof₁, rfl, ?_⟩
    rw [Sim.ipaVerify_eq rel hc tr hC hrel, htr]
    exact hv₂

/-- non-vacuity: the generator and everything the untrusted decoder returns are valid
representatives, so bases satisfying the hypotheses exist -/
theorem generator_isRep : IsRep Pt.generator := ⟨_, generator_rep⟩

theorem decoded_isRep (b : Bytes) (p : Pt) (h : decodeCompressed Fp.sqrtPrecomp b false = .ok p) : IsRep p :=
  decode_rep b p h

example : ∃ srs : List Pt, srs.length = 256 ∧ ∀ p ∈ srs, IsRep p :=
  ⟨List.replicate 256 Pt.generator, List.length_replicate, fun p hp => by
    rw [List.eq_of_mem_replicate hp]; exact generator_isRep⟩

end GoIpa.Exec
