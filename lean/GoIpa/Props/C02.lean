/-
  C02 — the verifier's decision is the verification equation of the protocol.
  `specVerify` is the reference verifier: plain inverses, folding scalars in recursive form,
  no batch inversion, no bit tests.  The code-shaped `ipaVerify`/`mpVerify` agree with it on
  every input, well-formed or not.
-/
import GoIpa.Lemmas.FoldingScalars
import GoIpa.Model.Multiproof
namespace GoIpa.C02
open GoIpa

variable {F G : Type} [Field F] [DecidableEq F] [AddCommGroup G] [Module F G]
variable (enc : Enc F G)

/-- the reference IPA verifier -/
def specIpaVerify (cfg : IpaCfg F G) (tr : Tr) (commitment : G) (proof : IpaProof F G) (z y : F) :
    Except VErr Bool × Tr :=
  let tr := tr.domainSep Label.ipa
  if proof.L.length ≠ proof.R.length then (.error .lenLR, tr)
  else if proof.L.length ≠ cfg.rounds then (.error .rounds, tr)
  else
    let b := bVector cfg z
    let tr := tr.appendPoint enc commitment Label.C
    let tr := tr.appendScalar enc z Label.inputPoint
    let tr := tr.appendScalar enc y Label.outputPoint
    let (w, tr) := tr.challenge enc Label.w
    let q := w • cfg.Q
    let (xs, tr) := genChallenges enc tr proof.L proof.R
    let xInvs := xs.map (·⁻¹)
    -- left-hand side:  C + y•q + Σ xⱼ•Lⱼ + xⱼ⁻¹•Rⱼ
    let lhs := (List.zip xs (List.zip xInvs (List.zip proof.L proof.R))).foldl
      (fun (c : G) (e : F × F × G × G) => c + e.1 • e.2.2.1 + e.2.1 • e.2.2.2) (commitment + y • q)
    -- right-hand side:  a•g₀ + (a·b₀)•q  with the folded basis and vector
    let fs := fsRec xInvs
    let rhs := proof.a • msm cfg.srs fs + (innerProd b fs * proof.a) • q
    (.ok (enc.eqG rhs lhs), tr)

theorem genChallenges_length (tr : Tr) (Ls Rs : List G) (h : Ls.length = Rs.length) :
    (genChallenges enc tr Ls Rs).1.length = Ls.length := by
  induction Ls generalizing tr Rs with
  | nil => cases Rs <;> simp [genChallenges]
  | cons l Ls ih =>
    cases Rs with
    | nil => simp at h
    | cons r Rs =>
      rw [genChallenges]
      simp only [List.length_cons]
      rw [ih _ Rs (by simpa using h)]

/-- **The implementation-shaped IPA verifier equals the reference verifier on every input**
(arbitrary commitment, proof, point, claimed value, transcript), provided the basis has `2^k`
points for `k` rounds.  Malformed shapes included: both return the same error. -/
theorem ipaVerify_eq_spec (cfg : IpaCfg F G) (hsrs : cfg.srs.length = 2 ^ cfg.rounds) (tr : Tr)
    (commitment : G) (proof : IpaProof F G) (z y : F) :
    ipaVerify enc cfg tr commitment proof z y = specIpaVerify enc cfg tr commitment proof z y := by
  unfold ipaVerify specIpaVerify
  by_cases h1 : proof.L.length ≠ proof.R.length
  · rw [if_pos h1, if_pos h1]
  · by_cases h2 : proof.L.length ≠ cfg.rounds
    · rw [if_neg h1, if_neg h1, if_pos h2, if_pos h2]
    · rw [if_neg h1, if_neg h1, if_neg h2, if_neg h2]
      have hl : proof.L.length = proof.R.length := by simpa using h1
      have hr : proof.L.length = cfg.rounds := by simpa using h2
      dsimp only
      rcases hw : Tr.challenge enc (Tr.appendScalar enc (Tr.appendScalar enc
        (Tr.appendPoint enc (tr.domainSep Label.ipa) commitment Label.C) z Label.inputPoint) y Label.outputPoint)
        Label.w with ⟨w, tr1⟩
      dsimp only
      have hlen := genChallenges_length enc tr1 proof.L proof.R hl
      rcases hg : genChallenges enc tr1 proof.L proof.R with ⟨xs, tr2⟩
      rw [hg] at hlen
      dsimp only at hlen ⊢
      rw [batchInvert_eq_map]
      have hxl : (xs.map (·⁻¹)).length = cfg.rounds := by simp [hlen, hr]
      have hfs : (List.range cfg.srs.length).map (foldingScalar cfg.rounds (xs.map (·⁻¹))) = fsRec (xs.map (·⁻¹)) := by
        rw [hsrs, ← hxl]; exact foldingScalars_eq_fsRec _
      rw [hfs]

/-- **Wrong shapes give an error and never `true`.** -/
theorem ipaVerify_shape (cfg : IpaCfg F G) (tr : Tr) (commitment : G) (proof : IpaProof F G) (z y : F)
    (h : proof.L.length ≠ proof.R.length ∨ proof.L.length ≠ cfg.rounds) :
    ∃ e, (ipaVerify enc cfg tr commitment proof z y).1 = .error e := by
  unfold ipaVerify
  by_cases h1 : proof.L.length ≠ proof.R.length
  · exact ⟨_, by rw [if_pos h1]⟩
  · rcases h with h | h
    · exact absurd h h1
    · exact ⟨_, by rw [if_neg h1, if_pos h]⟩

theorem mpVerify_shape (cfg : IpaCfg F G) (tr : Tr) (proof : MultiProof F G) (Cs : List G) (ys : List F) (zs : List Nat)
    (h : Cs.length ≠ ys.length ∨ Cs.length ≠ zs.length ∨ Cs.length = 0 ∨
      proof.ipa.L.length ≠ proof.ipa.R.length ∨ proof.ipa.L.length ≠ cfg.rounds) :
    ∃ e, (mpVerify enc cfg tr proof Cs ys zs).1 = .error e := by
  unfold mpVerify
  by_cases h1 : Cs.length ≠ ys.length
  · exact ⟨_, by rw [if_pos h1]⟩
  · by_cases h2 : Cs.length ≠ zs.length
    · exact ⟨_, by rw [if_neg h1, if_pos h2]⟩
    · by_cases h3 : Cs.length = 0
      · exact ⟨_, by rw [if_neg h1, if_neg h2, if_pos h3]⟩
      · rw [if_neg h1, if_neg h2, if_neg h3]
        apply ipaVerify_shape
        rcases h with h | h | h | h | h
        · exact absurd h h1
        · exact absurd h h2
        · exact absurd h h3
        · exact Or.inl h
        · exact Or.inr h

/-- **Changing only the final scalar of an accepted proof is always rejected** (pure algebra, no
cryptographic assumption): if `a • X = c` and `a' ≠ a` then `a' • X ≠ c` unless `X = 0`. -/
theorem final_scalar_rejected (X c : G) (a a' : F) (hX : X ≠ 0) (hacc : a • X = c) (hne : a' ≠ a) : a' • X ≠ c := by
  intro h
  have : (a' - a) • X = 0 := by rw [sub_smul, h, hacc, sub_self]
  rcases smul_eq_zero.mp this with h0 | h0
  · exact hne (sub_eq_zero.mp h0)
  · exact hX h0

/-- the right-hand side of the verification equation is `a • (g₀ + b₀ • q)` -/
theorem rhs_factor (a b0 : F) (g0 q : G) : a • g0 + (b0 * a) • q = a • (g0 + b0 • q) := by
  module

end GoIpa.C02
