/-
  C13 — operations are pure.
  The model's API is a family of functions of (configuration, arguments): a history of calls is
  a state machine whose state is the shared configuration.  Running any history leaves the
  configuration unchanged and every output equals the output of the same call on its own.
  The one permitted effect on inputs — `CreateMultiProof` re-normalising the commitments — is
  `BatchNormalize`, whose frame property (only referenced cells change, each stays the same
  group element) is C19.batchNormalize_spec.  The implementation is tied to this by
  fingerprints of the configuration, package variables and every input around each call.
-/
import GoIpa.Props.C19
import GoIpa.Model.Multiproof
namespace GoIpa.C13
open GoIpa

variable {F G : Type}

/-- an API call: any function of the shared configuration (arguments are inside the closure) -/
structure Call (F G Out : Type) where
  run : IpaCfg F G → Out

/-- the state machine: the state is the shared configuration, a call reads it and returns a value -/
def step {Out : Type} (cfg : IpaCfg F G) (c : Call F G Out) : IpaCfg F G × Out := (cfg, c.run cfg)

def runHistory {Out : Type} (cfg : IpaCfg F G) : List (Call F G Out) → IpaCfg F G × List Out
  | [] => (cfg, [])
  | c :: cs =>
    let (cfg', o) := step cfg c
    let (cfg'', os) := runHistory cfg' cs
    (cfg'', o :: os)

/-- **The configuration is never modified**, whatever the history. -/
theorem config_preserved {Out : Type} (cfg : IpaCfg F G) (h : List (Call F G Out)) : (runHistory cfg h).1 = cfg := by
  induction h with
  | nil => rfl
  | cons c cs ih => simp [runHistory, step, ih]

/-- **History independence**: the output of a call does not depend on the calls before it. -/
theorem output_history_independent {Out : Type} (cfg : IpaCfg F G) (h1 h2 : List (Call F G Out)) (c : Call F G Out) :
    (runHistory cfg (h1 ++ [c])).2.getLast? = (runHistory cfg (h2 ++ [c])).2.getLast? := by
  have key : ∀ h : List (Call F G Out), (runHistory cfg h).2 = h.map (fun c => c.run cfg) := by
    intro h
    induction h with
    | nil => rfl
    | cons d ds ih => simp [runHistory, step, ih]
  rw [key, key]; simp

/-- every output of a history is the output of that call alone -/
theorem outputs_pointwise {Out : Type} (cfg : IpaCfg F G) (h : List (Call F G Out)) :
    (runHistory cfg h).2 = h.map (fun c => c.run cfg) := by
  induction h with
  | nil => rfl
  | cons c cs ih => simp [runHistory, step, ih]

/-- the prover and verifier of the model are such calls -/
def proveCall [Zero F] [One F] [Add F] [Sub F] [Mul F] [Neg F] [Inv F] [NatCast F] [DecidableEq F]
    [Zero G] [Add G] [Sub G] [SMul F G] (enc : Enc F G) (tr : Tr) (Cs : List G) (fs : List (List F)) (zs : List Nat) :
    Call F G (Option (MultiProof F G) × Tr) := ⟨fun cfg => mpProve enc cfg tr Cs fs zs⟩

/-- **Permitted effect on inputs**: re-normalisation of the commitments leaves every referenced
element the same group element (with `Z = 1`) and every other cell untouched. -/
theorem renormalisation_frame {F : Type} [Field F] [DecidableEq F] (heap : List (Proj F)) (order : List Nat)
    (hnd : order.Nodup) (hb : ∀ i ∈ order, i < heap.length) (hz : ∀ i ∈ order, (heap.getD i ⟨0, 0, 0⟩).Z ≠ 0) :
    ∃ r, batchNormalize heap order = some r ∧
      (∀ i ∈ order, C07.ClassEq (r.getD i ⟨0, 0, 0⟩) (heap.getD i ⟨0, 0, 0⟩)) ∧
      (∀ j, j ∉ order → r.getD j ⟨0, 0, 0⟩ = heap.getD j ⟨0, 0, 0⟩) := by
  obtain ⟨r, h1, _, h3, h4⟩ := C19.batchNormalize_spec heap order hnd hb hz
  refine ⟨r, h1, ?_, h4⟩
  intro i hi
  rw [h3 i hi]
  exact (C19.normalize_class _ (hz i hi)).1

end GoIpa.C13
