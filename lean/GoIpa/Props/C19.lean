/-
  C19 — batch helpers agree with the single-element operations, for every list, every
  representation and every aliasing pattern.
-/
import GoIpa.Props.C07
import GoIpa.Lemmas.BatchInvert
import GoIpa.Model.Batch
namespace GoIpa.C19
open GoIpa

variable {F : Type} [Field F] [DecidableEq F]

private theorem zipWith_map_inv (ps : List (Proj F)) (g : Proj F → F) {β : Type} (f : Proj F → F → β) :
    List.zipWith f ps ((ps.map g).map (·⁻¹)) = ps.map fun p => f p (g p)⁻¹ := by
  induction ps with
  | nil => simp
  | cons p ps ih =>
    simp only [List.map_cons, List.zipWith_cons_cons]
    rw [ih]

/-- **`ElementsToBytes` = `Bytes` position by position**, for every list (any length, repeated
elements, `Z = 1` or not). -/
theorem batchEncode_eq_map (lexLargest : F → Bool) (enc : F → Bytes) (ps : List (Proj F)) :
    batchEncode lexLargest enc ps = ps.map (Proj.encode lexLargest enc) := by
  unfold batchEncode
  rw [batchInvert_eq_map, zipWith_map_inv]
  apply List.map_congr_left
  intro p _
  unfold Proj.encode
  by_cases hz : p.Z = 1
  · simp [hz]
  · simp [hz, Proj.toAff]

/-- **`BatchToBytesUncompressed` = `BytesUncompressedTrusted` position by position.** -/
theorem batchEncodeUncompressed_eq_map (enc : F → Bytes) (ps : List (Proj F)) :
    batchEncodeUncompressed enc ps = ps.map fun p => enc p.toAff.x ++ enc p.toAff.y := by
  unfold batchEncodeUncompressed
  rw [batchInvert_eq_map, zipWith_map_inv]
  rfl

/-- **`BatchMapToScalarField` = `MapToScalarField` position by position** (see C11). -/
theorem batchMap_eq_map (ps : List (Proj F)) : batchMapToBase ps = ps.map Proj.mapToBase := by
  unfold batchMapToBase
  rw [batchInvert_eq_map, zipWith_map_inv]
  rfl

/-- normalisation keeps the element and makes `Z = 1` -/
theorem normalize_class (p : Proj F) (hz : p.Z ≠ 0) : C07.ClassEq p.normalize p ∧ p.normalize.Z = 1 := by
  refine ⟨Or.inl ?_, rfl⟩
  simp [Proj.normalize, Proj.toAff]

/-- **All-or-nothing.** If some referenced element has `Z = 0`, `BatchNormalize` reports an
error and produces no new heap (nothing is modified). -/
theorem batchNormalize_fails (heap : List (Proj F)) (order : List Nat)
    (h : ∃ i ∈ order, (heap.getD i ⟨0, 0, 0⟩).Z = 0) : batchNormalize heap order = none := by
  unfold batchNormalize
  have : order.any (fun i => decide ((heap.getD i ⟨0, 0, 0⟩).Z = 0)) = true := by
    obtain ⟨i, hi, hz⟩ := h
    exact List.any_eq_true.mpr ⟨i, hi, by simpa using hz⟩
  rw [if_pos this]

private theorem fold_spec (d : Proj F) (heap : List (Proj F)) :
    ∀ (l : List Nat) (h : List (Proj F)), l.Nodup → (∀ i ∈ l, i < heap.length) → h.length = heap.length →
      (∀ i ∈ l, h.getD i d = heap.getD i d) →
      let r := (List.zip l (l.map fun i => (heap.getD i d).Z⁻¹)).foldl (fun h (e : Nat × F) =>
        let p := h.getD e.1 d
        h.set e.1 ⟨p.X * e.2, p.Y * e.2, 1⟩) h
      r.length = heap.length ∧ (∀ i ∈ l, r.getD i d = (heap.getD i d).normalize) ∧ (∀ j, j ∉ l → r.getD j d = h.getD j d) := by
  intro l
  induction l with
  | nil => intro h _ _ hl _; simp [hl]
  | cons a l ih =>
    intro h hnd hb hl hag
    simp only [List.map_cons, List.zip_cons_cons, List.foldl_cons]
    have hnd' := (List.nodup_cons.mp hnd)
    set h1 := h.set a ⟨(h.getD a d).X * (heap.getD a d).Z⁻¹, (h.getD a d).Y * (heap.getD a d).Z⁻¹, 1⟩ with hh1
    have hl1 : h1.length = heap.length := by simp [hh1, hl]
    have ha : a < h.length := by rw [hl]; exact hb a (by simp)
    have hag1 : ∀ i ∈ l, h1.getD i d = heap.getD i d := by
      intro i hi
      have hne : a ≠ i := fun e => hnd'.1 (e ▸ hi)
      rw [hh1, List.getD_eq_getElem?_getD, List.getElem?_set_ne hne, ← List.getD_eq_getElem?_getD]
      exact hag i (by simp [hi])
    obtain ⟨r1, r2, r3⟩ := ih h1 hnd'.2 (fun i hi => hb i (by simp [hi])) hl1 hag1
    refine ⟨r1, ?_, ?_⟩
    · intro i hi
      rcases List.mem_cons.mp hi with e | hi
      · subst e
        rw [r3 i hnd'.1, hh1, List.getD_eq_getElem?_getD, List.getElem?_set_self ha]
        simp only [Option.getD_some, Proj.normalize]
        rw [hag i (by simp)]
      · exact r2 i hi
    · intro j hj
      have hja : a ≠ j := fun e => hj (by simp [e])
      have hjl : j ∉ l := fun e => hj (by simp [e])
      rw [r3 j hjl, hh1, List.getD_eq_getElem?_getD, List.getElem?_set_ne hja, ← List.getD_eq_getElem?_getD]

/-- **`BatchNormalize` with arbitrary aliasing.** `order` is the (arbitrary) iteration order of the
de-duplicated pointer set.  When every referenced element has `Z ≠ 0`, every referenced element
is replaced by its normal form (same group element, `Z = 1`) exactly once — whatever the order
— and unreferenced heap cells are untouched. -/
theorem batchNormalize_spec (heap : List (Proj F)) (order : List Nat) (hnd : order.Nodup)
    (hb : ∀ i ∈ order, i < heap.length) (hz : ∀ i ∈ order, (heap.getD i ⟨0, 0, 0⟩).Z ≠ 0) :
    ∃ r, batchNormalize heap order = some r ∧ r.length = heap.length ∧
      (∀ i ∈ order, r.getD i ⟨0, 0, 0⟩ = (heap.getD i ⟨0, 0, 0⟩).normalize) ∧
      (∀ j, j ∉ order → r.getD j ⟨0, 0, 0⟩ = heap.getD j ⟨0, 0, 0⟩) := by
  unfold batchNormalize
  have hany : order.any (fun i => decide ((heap.getD i ⟨0, 0, 0⟩).Z = 0)) = false := by
    rw [List.any_eq_false]
    intro i hi
    simpa using hz i hi
  simp only [hany, Bool.false_eq_true, ↓reduceIte]
  rw [batchInvert_eq_map, List.map_map]
  have := fold_spec (⟨0, 0, 0⟩ : Proj F) heap order heap hnd hb rfl (fun _ _ => rfl)
  exact ⟨_, rfl, this⟩

/-- the result does not depend on the iteration order of the pointer set -/
theorem batchNormalize_order_independent (heap : List (Proj F)) (o1 o2 : List Nat)
    (hp : o1.Perm o2) (hnd : o1.Nodup) (hb : ∀ i ∈ o1, i < heap.length)
    (hz : ∀ i ∈ o1, (heap.getD i ⟨0, 0, 0⟩).Z ≠ 0) : batchNormalize heap o1 = batchNormalize heap o2 := by
  obtain ⟨r1, e1, l1, a1, b1⟩ := batchNormalize_spec heap o1 hnd hb hz
  obtain ⟨r2, e2, l2, a2, b2⟩ := batchNormalize_spec heap o2 (hp.nodup_iff.mp hnd)
    (fun i hi => hb i (hp.mem_iff.mpr hi)) (fun i hi => hz i (hp.mem_iff.mpr hi))
  rw [e1, e2]
  congr 1
  apply List.ext_getElem (by rw [l1, l2])
  intro i h1 h2
  have g1 : r1.getD i ⟨0, 0, 0⟩ = r1[i] := by simp [List.getD_eq_getElem?_getD, h1]
  have g2 : r2.getD i ⟨0, 0, 0⟩ = r2[i] := by simp [List.getD_eq_getElem?_getD, h2]
  rw [← g1, ← g2]
  by_cases hi : i ∈ o1
  · rw [a1 i hi, a2 i (hp.mem_iff.mp hi)]
  · rw [b1 i hi, b2 i (fun h => hi (hp.mem_iff.mpr h))]

/-! concrete instance with aliasing (pointer 0 referenced twice → de-duplicated order [2, 0]) -/
example : batchNormalize ([⟨2, 4, 2⟩, ⟨1, 1, 5⟩, ⟨3, 3, 3⟩] : List (Proj ℚ)) [2, 0] =
    some [⟨1, 2, 1⟩, ⟨1, 1, 5⟩, ⟨1, 1, 1⟩] := by
  simp [batchNormalize, batchInvert_eq_map]; norm_num

end GoIpa.C19
