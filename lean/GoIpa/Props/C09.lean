/-
  C09 — the bucket method computes Σ sᵢ • Pᵢ.  Group-level theorems, for every abelian
  group: bucket reduction by running sums, Horner recombination of the chunk totals, and the
  signed-digit recoding with carry.
-/
import Mathlib.Tactic.Module
import Mathlib.Tactic.Ring
import Mathlib.Tactic.Abel
import Mathlib.Tactic.Linarith
import Mathlib.Tactic.LinearCombination
import Mathlib.Algebra.Module.NatInt
import Mathlib.Algebra.BigOperators.Group.List.Basic
import GoIpa.Model.Pippenger
namespace GoIpa.C09
open GoIpa

variable {G : Type} [AddCommGroup G]

/-- `Σ (k+1) • b_k` in recursive form -/
def weighted : List G → G
  | [] => 0
  | b :: l => b + weighted l + l.sum

theorem running_sum_fold (l : List G) (r0 t0 : G) :
    l.foldr (fun (bk : G) (st : G × G) => (st.1 + bk, st.2 + (st.1 + bk))) (r0, t0)
      = (r0 + l.sum, t0 + l.length • r0 + weighted l) := by
  induction l with
  | nil => simp [weighted]
  | cons b l ih =>
    simp only [List.foldr_cons, ih, List.sum_cons, List.length_cons, weighted]
    refine Prod.ext ?_ ?_
    · simp only; abel
    · simp only [add_smul, one_smul]; abel

/-- **Bucket reduction.** The running-sum loop over the buckets returns `Σ (k+1) • bucket_k`. -/
theorem bucket_reduce (buckets : List G) :
    (buckets.foldr (fun (bk : G) (st : G × G) => (st.1 + bk, st.2 + (st.1 + bk))) ((0 : G), (0 : G))).2
      = weighted buckets := by
  rw [running_sum_fold]; simp

/-- closed form of `weighted`: the bucket at position `k` counts `k+1` times -/
theorem weighted_eq_sum (l : List G) :
    weighted l = ((List.zipIdx l).map fun e => (e.2 + 1) • e.1).sum := by
  suffices h : ∀ (n : Nat), ((List.zipIdx l n).map fun e => (e.2 + 1) • e.1).sum = weighted l + n • l.sum by
    have := h 0; simp at this; exact this.symm
  induction l with
  | nil => intro n; simp [weighted]
  | cons b l ih =>
    intro n
    simp only [List.zipIdx_cons, List.map_cons, List.sum_cons, ih (n + 1), weighted]
    simp only [add_smul, one_smul, smul_add]
    abel

theorem doubleN_spec (n : Nat) (p : G) : doubleN (fun x => x + x) n p = (2 ^ n) • p := by
  induction n generalizing p with
  | zero => simp [doubleN]
  | succ n ih => rw [doubleN, ih, pow_succ, mul_smul, two_smul]

/-- **Horner recombination.** With `c` doublings between chunks, the chunk totals `t₀, t₁, …`
(least significant first) combine to `Σ 2^(c·j) • t_j`. -/
theorem reduceChunks_spec (c : Nat) (chunks : List G) :
    reduceChunks (fun x => x + x) c chunks = ((List.zipIdx chunks).map fun e => (2 ^ (c * e.2)) • e.1).sum := by
  suffices h : ∀ (l : List G), l ≠ [] →
      (match l.reverse with
        | [] => (0 : G)
        | top :: rest => rest.foldl (fun acc t => doubleN (fun x => x + x) c acc + t) top)
      = ((List.zipIdx l).map fun e => (2 ^ (c * e.2)) • e.1).sum by
    unfold reduceChunks
    by_cases hne : chunks = []
    · subst hne; simp
    · exact h chunks hne
  intro l
  induction l using List.reverseRecOn with
  | nil => intro h; exact absurd rfl h
  | append_singleton l t ih =>
    intro _
    -- top chunk is `t`; the rest is folded most-significant first
    rw [List.reverse_append, List.reverse_singleton, List.singleton_append]
    simp only
    -- generalised Horner over the reversed prefix
    have key : ∀ (pre : List G) (acc : G),
        pre.reverse.foldl (fun acc t => doubleN (fun x => x + x) c acc + t) acc
          = (2 ^ (c * pre.length)) • acc + ((List.zipIdx pre).map fun e => (2 ^ (c * e.2)) • e.1).sum := by
      intro pre
      induction pre using List.reverseRecOn with
      | nil => intro acc; simp
      | append_singleton pre u ihp =>
        intro acc
        rw [List.reverse_append, List.reverse_singleton, List.singleton_append, List.foldl_cons, ihp]
        rw [doubleN_spec, List.zipIdx_append, List.map_append, List.sum_append]
        simp only [List.zipIdx_cons, List.zipIdx_nil, List.map_cons, List.map_nil, List.sum_cons, List.sum_nil,
          List.length_append, List.length_singleton, Nat.zero_add, add_zero]
        rw [smul_add, ← mul_smul, ← pow_add, Nat.mul_add, Nat.mul_one]
        abel
    rw [key l t, List.zipIdx_append, List.map_append, List.sum_append]
    simp only [List.zipIdx_cons, List.zipIdx_nil, List.map_cons, List.map_nil, List.sum_cons, List.sum_nil,
      Nat.zero_add, add_zero]
    abel

/-! ### signed digits with carry -/

/-- the pure recoding: digit `k` of `s` in base `2^c`, made signed by borrowing from the next -/
def recode (c : Nat) : Nat → Nat → Nat → List Int
  | 0, _, _ => []
  | n + 1, s, carry =>
    let d := s % 2 ^ c + carry
    if d ≥ 2 ^ (c - 1) then ((d : Int) - (2 ^ c : Nat)) :: recode c n (s / 2 ^ c) 1
    else (d : Int) :: recode c n (s / 2 ^ c) 0

/-- value of a digit string in base `2^c` -/
def digitsVal (c : Nat) : List Int → Int
  | [] => 0
  | d :: ds => d + (2 ^ c : Nat) * digitsVal c ds

/-- **Signed-digit recoding is exact.** For every window width `c ≥ 1`, every number of chunks
and every carry-in, the digits represent `s + carry` up to the final carry. -/
theorem recode_val (c : Nat) (hc : 0 < c) : ∀ (n s carry : Nat), carry ≤ 1 →
    ∃ cout : Nat, cout ≤ 1 ∧ digitsVal c (recode c n s carry) + (cout : Int) * ((2 ^ c : Nat) : Int) ^ n
      = ((s % (2 ^ c) ^ n : Nat) : Int) + carry ∧
      (n ≥ 1 → s / (2 ^ c) ^ (n - 1) % 2 ^ c + 1 < 2 ^ (c - 1) → cout = 0) := by
  intro n
  induction n with
  | zero =>
    intro s carry hcarry
    exact ⟨carry, hcarry, by simp [recode, digitsVal, Nat.mod_one], fun h => by omega⟩
  | succ n ih =>
    intro s carry hcarry
    have hb : 0 < 2 ^ c := Nat.two_pow_pos c
    have hhalf : 2 ^ c = 2 * 2 ^ (c - 1) := by rw [← Nat.pow_succ']; congr 1; omega
    have hsplit : s % (2 ^ c) ^ (n + 1) = s % 2 ^ c + 2 ^ c * (s / 2 ^ c % (2 ^ c) ^ n) := by
      rw [pow_succ', Nat.mod_mul]
    have hdl : s % 2 ^ c < 2 ^ c := Nat.mod_lt _ hb
    unfold recode
    simp only
    by_cases hbig : s % 2 ^ c + carry ≥ 2 ^ (c - 1)
    · simp only [hbig, ↓reduceIte]
      obtain ⟨cout, hco, hv, htop⟩ := ih (s / 2 ^ c) 1 (le_refl 1)
      refine ⟨cout, hco, ?_, ?_⟩
      · rw [digitsVal, hsplit]
        push_cast
        push_cast at hv
        rw [pow_succ]
        linear_combination ((2 : Int) ^ c) * hv
      · intro hn1 hlt
        cases n with
        | zero => simp at hlt; omega
        | succ m =>
          apply htop (by omega)
          simp only [Nat.add_sub_cancel] at hlt ⊢
          rw [Nat.div_div_eq_div_mul, ← pow_succ']
          exact hlt
    · simp only [hbig, ↓reduceIte]
      obtain ⟨cout, hco, hv, htop⟩ := ih (s / 2 ^ c) 0 (by omega)
      refine ⟨cout, hco, ?_, ?_⟩
      · rw [digitsVal, hsplit]
        push_cast
        push_cast at hv
        rw [pow_succ]
        linear_combination ((2 : Int) ^ c) * hv
      · intro hn1 hlt
        cases n with
        | zero =>
          simp [recode, digitsVal] at hv
          omega
        | succ m =>
          apply htop (by omega)
          simp only [Nat.add_sub_cancel] at hlt ⊢
          rw [Nat.div_div_eq_div_mul, ← pow_succ']
          exact hlt

end GoIpa.C09
