/-
  C09 — the variable-base MSM is correct for every size, every implemented window width, with
  and without the split of the first chunk, and for every split of the points into blocks
  whose partial results are added in any order.
-/
import GoIpa.Lemmas.PipBits
namespace GoIpa.C09
open GoIpa GoIpa.Pip GoIpa.PipBits

variable {G : Type} [AddCommGroup G]

/-- the window widths `MultiExp` can choose -/
def implementedCs : List Nat := [4, 5, 6, 7, 8, 9, 10, 11, 12, 13, 14, 15, 16, 20, 21, 22]

theorem nbOf_mid (c k : Nat) (hk : k ≠ nbChunks c - 1) : nbOf c k = 2 ^ (c - 1) := by
  unfold nbOf
  rw [if_neg (fun h => hk h.2), Nat.one_shiftLeft]

/-- the top window of a scalar below `2^253` is small enough for every implemented width -/
theorem top_window_ok (c : Nat) (hc : c ∈ implementedCs) (s : Nat) (hs : s < 2 ^ 253) :
    window c s (nbChunks c - 1) + 1 ≤ 2 ^ (256 - (nbChunks c - 1) * c - 1) ∧
      window c s (nbChunks c - 1) + 1 < 2 ^ (c - 1) ∧
      window c s (nbChunks c - 1) + 1 ≤ nbOf c (nbChunks c - 1) := by
  unfold implementedCs at hc
  simp only [List.mem_cons, List.not_mem_nil, or_false] at hc
  rcases hc with rfl | rfl | rfl | rfl | rfl | rfl | rfl | rfl | rfl | rfl | rfl | rfl | rfl | rfl | rfl | rfl
  all_goals
    first
    | (have hn : nbChunks 4 = 64 := by decide
       unfold window nbOf; rw [hn]; simp only [Nat.one_shiftLeft]; norm_num; omega)
    | (have hn : nbChunks 5 = 52 := by decide
       unfold window nbOf; rw [hn]; simp only [Nat.one_shiftLeft]; norm_num; omega)
    | (have hn : nbChunks 6 = 43 := by decide
       unfold window nbOf; rw [hn]; simp only [Nat.one_shiftLeft]; norm_num; omega)
    | (have hn : nbChunks 7 = 37 := by decide
       unfold window nbOf; rw [hn]; simp only [Nat.one_shiftLeft]; norm_num; omega)
    | (have hn : nbChunks 8 = 32 := by decide
       unfold window nbOf; rw [hn]; simp only [Nat.one_shiftLeft]; norm_num; omega)
    | (have hn : nbChunks 9 = 29 := by decide
       unfold window nbOf; rw [hn]; simp only [Nat.one_shiftLeft]; norm_num; omega)
    | (have hn : nbChunks 10 = 26 := by decide
       unfold window nbOf; rw [hn]; simp only [Nat.one_shiftLeft]; norm_num; omega)
    | (have hn : nbChunks 11 = 24 := by decide
       unfold window nbOf; rw [hn]; simp only [Nat.one_shiftLeft]; norm_num; omega)
    | (have hn : nbChunks 12 = 22 := by decide
       unfold window nbOf; rw [hn]; simp only [Nat.one_shiftLeft]; norm_num; omega)
    | (have hn : nbChunks 13 = 20 := by decide
       unfold window nbOf; rw [hn]; simp only [Nat.one_shiftLeft]; norm_num; omega)
    | (have hn : nbChunks 14 = 19 := by decide
       unfold window nbOf; rw [hn]; simp only [Nat.one_shiftLeft]; norm_num; omega)
    | (have hn : nbChunks 15 = 18 := by decide
       unfold window nbOf; rw [hn]; simp only [Nat.one_shiftLeft]; norm_num; omega)
    | (have hn : nbChunks 16 = 16 := by decide
       unfold window nbOf; rw [hn]; simp only [Nat.one_shiftLeft]; norm_num; omega)
    | (have hn : nbChunks 20 = 13 := by decide
       unfold window nbOf; rw [hn]; simp only [Nat.one_shiftLeft]; norm_num; omega)
    | (have hn : nbChunks 21 = 13 := by decide
       unfold window nbOf; rw [hn]; simp only [Nat.one_shiftLeft]; norm_num; omega)
    | (have hn : nbChunks 22 = 12 := by decide
       unfold window nbOf; rw [hn]; simp only [Nat.one_shiftLeft]; norm_num; omega)

theorem implemented_range (c : Nat) (hc : c ∈ implementedCs) : 2 ≤ c ∧ c ≤ 64 := by
  unfold implementedCs at hc
  simp only [List.mem_cons, List.not_mem_nil, or_false] at hc
  omega

/-- **Recoding.** For every implemented width and every scalar below `2^253` (in particular
every reduced scalar), the digits `partitionScalars` stores, read back through the selectors,
sum to the scalar, and each addresses an existing bucket of its chunk. -/
theorem scalar_recode_ok (c : Nat) (hc : c ∈ implementedCs) (s : Nat) (hs : s < 2 ^ 253) :
    digitSum c (nbChunks c) (partitionScalar c s) = (s : Int) ∧
    ∀ k, k < nbChunks c → InRange c (nbOf c k) (selectBits c (partitionScalar c s) k) := by
  obtain ⟨h2, h64⟩ := implemented_range c hc
  exact partitionScalar_spec c s h2 h64 (Nat.lt_of_lt_of_le hs (by decide))
    (fun k _ hk => by rw [nbOf_mid c k hk]) (top_window_ok c hc s hs)

/-- `Σ sᵢ • Pᵢ` -/
def msmSpec (points : List G) (scalars : List Nat) : G :=
  ((List.zip points scalars).map fun e => e.2 • e.1).sum

/-- **`msmCk` is correct.** For every abelian group, every implemented window width, every list
of points and scalars below `2^253` (any lengths, duplicates, zeros), with or without the split
of the first chunk: the result is `Σ sᵢ • Pᵢ`. -/
theorem msmInner_correct (c : Nat) (hc : c ∈ implementedCs) (points : List G) (scalars : List Nat)
    (hs : ∀ s ∈ scalars, s < 2 ^ 253) (split : Bool) :
    msmInner (fun x => x + x) c points (scalars.map (partitionScalar c)) split = msmSpec points scalars := by
  obtain ⟨h2, h64⟩ := implemented_range c hc
  have hzip : List.zip points (scalars.map (partitionScalar c))
      = (List.zip points scalars).map fun e => (e.1, partitionScalar c e.2) := by
    rw [List.zip_map_right]
    apply List.map_congr_left
    intro e _; rfl
  have hmem : ∀ e ∈ List.zip points scalars, e.2 < 2 ^ 253 := fun e he => hs e.2 (List.of_mem_zip he).2
  rw [msmInner_spec c points _ split (nbChunks_bounds c (by omega) h64).1]
  · rw [hzip, List.map_map]
    unfold msmSpec
    apply congrArg
    apply List.map_congr_left
    intro e he
    simp only [Function.comp]
    rw [(scalar_recode_ok c hc e.2 (hmem e he)).1, natCast_zsmul]
  · intro k hk e he
    rw [hzip] at he
    obtain ⟨e', he', rfl⟩ := List.mem_map.mp he
    exact (scalar_recode_ok c hc e'.2 (hmem e' he')).2 k hk

theorem msmSpec_take_drop (points : List G) (scalars : List Nat) (h : Nat) :
    msmSpec (points.take h) (scalars.take h) + msmSpec (points.drop h) (scalars.drop h) = msmSpec points scalars := by
  unfold msmSpec
  rw [← List.sum_append, ← List.map_append, zip_take_drop]

/-- cutting the points into `m` blocks of `per` and a remainder loses and duplicates nothing -/
theorem msmSpec_blocks (points : List G) (scalars : List Nat) (per m : Nat) :
    (((List.range m).map fun i =>
        msmSpec ((points.drop (i * per)).take per) ((scalars.drop (i * per)).take per)).sum
      + msmSpec (points.drop (m * per)) (scalars.drop (m * per))) = msmSpec points scalars := by
  induction m with
  | zero => simp
  | succ m ih =>
    rw [List.range_succ, List.map_append, List.sum_append]
    simp only [List.map_cons, List.map_nil, List.sum_cons, List.sum_nil, add_zero]
    rw [← ih, add_assoc]
    congr 1
    have e : ∀ {α : Type} (l : List α), l.drop ((m + 1) * per) = (l.drop (m * per)).drop per := by
      intro α l; rw [List.drop_drop, Nat.succ_mul]
    rw [e points, e scalars]
    exact msmSpec_take_drop _ _ per

theorem foldl_add_sum {α : Type} (l : List α) (f : α → G) (z : G) :
    l.foldl (fun acc i => acc + f i) z = z + (l.map f).sum := by
  induction l generalizing z with
  | nil => simp
  | cons x l ih => simp only [List.foldl_cons, List.map_cons, List.sum_cons, ih]; abel

/-- **`MultiExp` is correct.** For every abelian group, every implemented window width, every
list of points and scalars below `2^253`, every number of blocks and block size the splitting
loop may choose, with or without the first-chunk split, and every order in which the blocks'
partial results are added: the result is `Σ sᵢ • Pᵢ`. -/
theorem multiExp_correct (c : Nat) (hc : c ∈ implementedCs) (nbSplits per : Nat) (points : List G)
    (scalars : List Nat) (hs : ∀ s ∈ scalars, s < 2 ^ 253) (split : Bool) (order : List Nat)
    (hperm : order.Perm (List.range (nbSplits - 1))) :
    multiExpSplit (fun x => x + x) c nbSplits per points scalars split order = msmSpec points scalars := by
  unfold multiExpSplit
  simp only
  rw [foldl_add_sum]
  have hblock : ∀ i, msmInner (fun x => x + x) c ((points.drop (i * per)).take per)
      (((scalars.map (partitionScalar c)).drop (i * per)).take per) split
      = msmSpec ((points.drop (i * per)).take per) ((scalars.drop (i * per)).take per) := by
    intro i
    rw [← List.map_drop, ← List.map_take]
    exact msmInner_correct c hc _ _ (fun s hm => hs s (List.mem_of_mem_drop (List.mem_of_mem_take hm))) split
  have hlast : msmInner (fun x => x + x) c (points.drop ((nbSplits - 1) * per))
      ((scalars.map (partitionScalar c)).drop ((nbSplits - 1) * per)) split
      = msmSpec (points.drop ((nbSplits - 1) * per)) (scalars.drop ((nbSplits - 1) * per)) := by
    rw [← List.map_drop]
    exact msmInner_correct c hc _ _ (fun s hm => hs s (List.mem_of_mem_drop hm)) split
  rw [hlast, (hperm.map _).sum_eq, add_comm]
  simp only [hblock]
  exact msmSpec_blocks points scalars per (nbSplits - 1)

/-- **The splitting loop ends by its own condition.** For every cost model, every task count
and every starting point: once `nbTasks ≤ nbSplits · 2^fuel`, the loop has stopped because
`nbChunks(c)·nbSplits ≥ nbTasks`, not because the fuel of the model ran out; the number of
blocks is a power-of-two multiple of the initial one and `nbSplits · nbPoints` never exceeds the
initial product (the blocks fit in the point list). -/
theorem chooseSplit_exits (bestC : Nat → Nat) (hC : ∀ p, 1 ≤ nbChunks (bestC p)) (nbTasks : Nat) :
    ∀ fuel nbPoints nbSplits, nbTasks ≤ nbSplits * 2 ^ fuel →
      let r := chooseSplit bestC nbTasks fuel nbPoints nbSplits
      nbTasks ≤ nbChunks r.1 * r.2.1 ∧ r.1 = bestC r.2.2 ∧ r.2.1 * r.2.2 ≤ nbSplits * nbPoints := by
  intro fuel
  induction fuel with
  | zero =>
    intro nbPoints nbSplits h
    simp only [Nat.pow_zero, Nat.mul_one] at h
    refine ⟨?_, rfl, Nat.le_refl _⟩
    show nbTasks ≤ nbChunks (bestC nbPoints) * nbSplits
    exact Nat.le_trans h (Nat.le_mul_of_pos_left _ (hC nbPoints))
  | succ fuel ih =>
    intro nbPoints nbSplits h
    unfold chooseSplit
    simp only
    by_cases hlt : nbChunks (bestC nbPoints) * nbSplits < nbTasks
    · rw [if_pos hlt]
      obtain ⟨a, b, c⟩ := ih (nbPoints / 2) (nbSplits * 2) (by rw [Nat.pow_succ] at h; rw [Nat.mul_assoc, Nat.mul_comm 2]; exact h)
      refine ⟨a, b, Nat.le_trans c ?_⟩
      rw [Nat.mul_assoc]
      exact Nat.mul_le_mul_left _ (by omega)
    · rw [if_neg hlt]
      exact ⟨by simpa using hlt, rfl, Nat.le_refl _⟩

end GoIpa.C09
