/-
  C08 — the coordinate formulas used by go-ipa compute the twisted Edwards group law.
  Formula level, for every field and every curve parameters `a`, `d`: the projective,
  mixed, doubling and extended formulas (gnark-crypto's, and the repository's
  `ExtendedAddNormalized`) agree with the unified affine law whenever the affine law's
  denominators do not vanish; the affine law is commutative, has neutral element and
  inverses, keeps points on the curve and is compatible with the Banderwagon class map.
  Associativity / the group order are the G-assumption (see DESIGN.md §4).
-/
import Mathlib.Tactic.Ring
import Mathlib.Tactic.FieldSimp
import Mathlib.Tactic.LinearCombination
import Mathlib.Algebra.Field.Basic
import GoIpa.Model.Curve
import GoIpa.Model.Element
namespace GoIpa.C08
open GoIpa

variable {F : Type} [Field F]

/-- the product `d·x₁x₂y₁y₂` whose `1 ± ·` are the denominators of the affine law -/
def kappa (c : Curve F) (p q : Aff F) : F := c.d * (p.x * q.x) * (p.y * q.y)

theorem aff_ext {p q : Aff F} (hx : p.x = q.x) (hy : p.y = q.y) : p = q := by
  cases p; cases q; simp_all

/-- **Projective addition (`add-2008-bbjlp`) computes the affine law.** -/
theorem proj_add_affine (c : Curve F) (p q : Proj F) (hp : p.Z ≠ 0) (hq : q.Z ≠ 0)
    (h1 : 1 + kappa c p.toAff q.toAff ≠ 0) (h2 : 1 - kappa c p.toAff q.toAff ≠ 0) :
    (Proj.add c p q).Z ≠ 0 ∧ (Proj.add c p q).toAff = Aff.add c p.toAff q.toAff := by
  set k := kappa c p.toAff q.toAff with hk
  have hW : (p.Z * q.Z) ^ 4 ≠ 0 := pow_ne_zero _ (mul_ne_zero hp hq)
  have hX : (Proj.add c p q).X =
      (p.toAff.x * q.toAff.y + p.toAff.y * q.toAff.x) * (p.Z * q.Z) ^ 4 * (1 - k) := by
    simp only [hk, kappa, Proj.add, Proj.toAff]; field_simp; try ring
  have hY : (Proj.add c p q).Y =
      (p.toAff.y * q.toAff.y - c.a * (p.toAff.x * q.toAff.x)) * (p.Z * q.Z) ^ 4 * (1 + k) := by
    simp only [hk, kappa, Proj.add, Proj.toAff]; field_simp; try ring
  have hZ : (Proj.add c p q).Z = (p.Z * q.Z) ^ 4 * ((1 - k) * (1 + k)) := by
    simp only [hk, kappa, Proj.add, Proj.toAff]; field_simp; try ring
  have hk2 : c.d * (p.toAff.x * q.toAff.x) * (p.toAff.y * q.toAff.y) = k := rfl
  refine ⟨by rw [hZ]; exact mul_ne_zero hW (mul_ne_zero h2 h1), ?_⟩
  apply aff_ext
  · show (Proj.add c p q).X * (Proj.add c p q).Z⁻¹ = _
    rw [hX, hZ]
    simp only [Aff.add]
    rw [hk2]
    field_simp
  · show (Proj.add c p q).Y * (Proj.add c p q).Z⁻¹ = _
    rw [hY, hZ]
    simp only [Aff.add]
    rw [hk2]
    field_simp

/-- **The affine law is commutative.** -/
theorem aff_add_comm (c : Curve F) (p q : Aff F) : Aff.add c p q = Aff.add c q p := by
  apply aff_ext <;> simp only [Aff.add] <;> ring_nf

/-- **Neutral element.** -/
theorem aff_add_zero (c : Curve F) (p : Aff F) : Aff.add c p Aff.zero = p := by
  apply aff_ext <;> simp [Aff.add, Aff.zero]

/-- **Inverse**: `P + (−P)` is the neutral element `(0, 1)` for every curve point whose
doubling denominators do not vanish. -/
theorem aff_add_neg (c : Curve F) (p : Aff F) (hp : p.onCurve c)
    (h1 : 1 + kappa c p p.neg ≠ 0) (h2 : 1 - kappa c p p.neg ≠ 0) : Aff.add c p p.neg = Aff.zero := by
  simp only [kappa, Aff.neg] at h1 h2
  unfold Aff.onCurve at hp
  apply aff_ext
  · simp only [Aff.add, Aff.neg, Aff.zero]
    have : p.x * p.y + p.y * -p.x = 0 := by ring
    rw [this, zero_mul]
  · simp only [Aff.add, Aff.neg, Aff.zero]
    rw [mul_inv_eq_iff_eq_mul₀ h2]
    linear_combination hp

/-- **Compatibility with the Banderwagon class map**: adding the other representative of a
class gives the other representative of the sum. -/
theorem aff_add_flip (c : Curve F) (p q : Aff F) : Aff.add c p.flip q = (Aff.add c p q).flip := by
  apply aff_ext <;> simp only [Aff.add, Aff.flip] <;> ring_nf

theorem aff_neg_flip (p : Aff F) : p.flip.neg = p.neg.flip := by
  apply aff_ext <;> simp [Aff.neg, Aff.flip]

/-- **Closure.** The sum of two curve points is a curve point (when the denominators do not
vanish). -/
theorem aff_add_onCurve (c : Curve F) (p q : Aff F) (hp : p.onCurve c) (hq : q.onCurve c)
    (h1 : 1 + kappa c p q ≠ 0) (h2 : 1 - kappa c p q ≠ 0) : (Aff.add c p q).onCurve c := by
  unfold Aff.onCurve at *
  simp only [Aff.add]
  set k := kappa c p q with hk
  have hk' : c.d * (p.x * q.x) * (p.y * q.y) = k := rfl
  rw [hk']
  have key : c.a * (p.x * q.y + p.y * q.x) ^ 2 * (1 - k) ^ 2 + (p.y * q.y - c.a * (p.x * q.x)) ^ 2 * (1 + k) ^ 2
      - (1 + k) ^ 2 * (1 - k) ^ 2 - c.d * (p.x * q.y + p.y * q.x) ^ 2 * (p.y * q.y - c.a * (p.x * q.x)) ^ 2 = 0 := by
    simp only [hk, kappa]
    linear_combination
      (-c.a^2*c.d*p.x^2*q.x^4*q.y^2 - 2*c.a^2*q.x^4*q.y^2 + c.a^2*q.x^4 + c.a*c.d^2*p.x^2*q.x^4*q.y^4
        - c.a*c.d*p.x^2*q.x^2*q.y^4 - c.a*c.d*q.x^4*p.y^2*q.y^2 + 2*c.a*c.d*q.x^4*q.y^4 - 2*c.a*q.x^2*q.y^4
        + 4*c.a*q.x^2*q.y^2 + c.d^3*p.x^2*q.x^4*p.y^2*q.y^4 + c.d^2*q.x^4*p.y^2*q.y^4 - c.d^2*q.x^4*q.y^4
        - c.d*q.x^2*p.y^2*q.y^4 - 2*c.d*q.x^2*q.y^2 + q.y^4) * hp
      + (c.a^2*c.d*p.x^4*q.x^2*q.y^2 + 2*c.a^2*p.x^2*q.x^2*q.y^2 - c.a^2*p.x^2*q.x^2 - 2*c.a*c.d*p.x^2*q.x^2*q.y^2
        - c.a*p.x^2*q.y^2 + 2*c.a*q.x^2*p.y^2*q.y^2 - c.a*q.x^2*p.y^2 - 2*c.a*q.x^2*q.y^2 + c.a*q.x^2
        + c.d*q.x^2*p.y^4*q.y^2 - 2*c.d*q.x^2*p.y^2*q.y^2 + c.d*q.x^2*q.y^2 - p.y^2*q.y^2 + q.y^2 + 1) * hq
  field_simp
  linear_combination key

/-- **Mixed addition (`madd-2008-bbjlp`) is projective addition with `Z₂ = 1`.** -/
theorem mixedAdd_eq_add (c : Curve F) (p : Proj F) (q : Aff F) :
    Proj.mixedAdd c p q = Proj.add c p (Proj.ofAff q) := by
  simp only [Proj.mixedAdd, Proj.add, Proj.ofAff, mul_one]

theorem mixedAdd_affine (c : Curve F) (p : Proj F) (q : Aff F) (hp : p.Z ≠ 0)
    (h1 : 1 + kappa c p.toAff q ≠ 0) (h2 : 1 - kappa c p.toAff q ≠ 0) :
    (Proj.mixedAdd c p q).Z ≠ 0 ∧ (Proj.mixedAdd c p q).toAff = Aff.add c p.toAff q := by
  have hq : (Proj.ofAff q).toAff = q := by
    apply aff_ext <;> simp [Proj.ofAff, Proj.toAff]
  rw [mixedAdd_eq_add]
  have := proj_add_affine c p (Proj.ofAff q) hp (by simp [Proj.ofAff]) (by rw [hq]; exact h1) (by rw [hq]; exact h2)
  rw [hq] at this
  exact this

/-- **Doubling (`dbl-2008-bbjlp`) computes `P + P`** for points on the curve (the dedicated
formula uses the curve equation). -/
theorem proj_double_affine (c : Curve F) (p : Proj F) (hp : p.Z ≠ 0) (hc : p.toAff.onCurve c)
    (h1 : 1 + kappa c p.toAff p.toAff ≠ 0) (h2 : 1 - kappa c p.toAff p.toAff ≠ 0) :
    (Proj.double c p).Z ≠ 0 ∧ (Proj.double c p).toAff = Aff.add c p.toAff p.toAff := by
  set k := kappa c p.toAff p.toAff with hk
  have hk2 : c.d * (p.toAff.x * p.toAff.x) * (p.toAff.y * p.toAff.y) = k := rfl
  unfold Aff.onCurve at hc
  have hs : c.a * (p.toAff.x * p.toAff.x) + p.toAff.y * p.toAff.y = 1 + k := by rw [hc, ← hk2]
  have hW : p.Z ^ 4 ≠ 0 := pow_ne_zero _ hp
  have hX : (Proj.double c p).X = (p.toAff.x * p.toAff.y + p.toAff.y * p.toAff.x) * p.Z ^ 4 *
      ((c.a * (p.toAff.x * p.toAff.x) + p.toAff.y * p.toAff.y) - 2) := by
    simp only [Proj.double, Proj.toAff]; field_simp; try ring
  have hY : (Proj.double c p).Y = (p.toAff.y * p.toAff.y - c.a * (p.toAff.x * p.toAff.x)) * p.Z ^ 4 *
      (-(c.a * (p.toAff.x * p.toAff.x) + p.toAff.y * p.toAff.y)) := by
    simp only [Proj.double, Proj.toAff]; field_simp; try ring
  have hZ : (Proj.double c p).Z = p.Z ^ 4 * ((c.a * (p.toAff.x * p.toAff.x) + p.toAff.y * p.toAff.y) *
      ((c.a * (p.toAff.x * p.toAff.x) + p.toAff.y * p.toAff.y) - 2)) := by
    simp only [Proj.double, Proj.toAff]; field_simp; try ring
  rw [hs] at hX hY hZ
  have h2' : (1 + k) - 2 ≠ 0 := by
    intro h; apply h2; linear_combination -h
  refine ⟨by rw [hZ]; exact mul_ne_zero hW (mul_ne_zero h1 h2'), ?_⟩
  apply aff_ext
  · show (Proj.double c p).X * (Proj.double c p).Z⁻¹ = _
    rw [hX, hZ]
    simp only [Aff.add]
    rw [hk2]
    field_simp
  · show (Proj.double c p).Y * (Proj.double c p).Z⁻¹ = _
    rw [hY, hZ]
    simp only [Aff.add]
    rw [hk2]
    have h2'' : 1 - k ≠ 0 := h2
    field_simp
    ring

/-- an extended point is consistent when `T·Z = X·Y` -/
def ExtOk (p : Ext F) : Prop := p.Z ≠ 0 ∧ p.T * p.Z = p.X * p.Y

/-- **Extended addition (`add-2008-hwcd`) computes the affine law and keeps `T·Z = X·Y`.** -/
theorem ext_add_affine (c : Curve F) (p q : Ext F) (hp : ExtOk p) (hq : ExtOk q)
    (h1 : 1 + kappa c p.toProj.toAff q.toProj.toAff ≠ 0) (h2 : 1 - kappa c p.toProj.toAff q.toProj.toAff ≠ 0) :
    ExtOk (Ext.add c p q) ∧ (Ext.add c p q).toProj.toAff = Aff.add c p.toProj.toAff q.toProj.toAff := by
  obtain ⟨hpz, hpt⟩ := hp
  obtain ⟨hqz, hqt⟩ := hq
  set k := kappa c p.toProj.toAff q.toProj.toAff with hk
  have hk2 : c.d * (p.toProj.toAff.x * q.toProj.toAff.x) * (p.toProj.toAff.y * q.toProj.toAff.y) = k := rfl
  have hT1 : p.T = p.X * p.Y * p.Z⁻¹ := by field_simp; linear_combination hpt
  have hT2 : q.T = q.X * q.Y * q.Z⁻¹ := by field_simp; linear_combination hqt
  have hW : (p.Z * q.Z) ^ 2 ≠ 0 := pow_ne_zero _ (mul_ne_zero hpz hqz)
  have hX : (Ext.add c p q).X = (p.toProj.toAff.x * q.toProj.toAff.y + p.toProj.toAff.y * q.toProj.toAff.x) * (p.Z * q.Z) ^ 2 * (1 - k) := by
    simp only [hk, kappa, Ext.add, Ext.toProj, Proj.toAff, hT1, hT2]; field_simp; try ring
  have hY : (Ext.add c p q).Y = (p.toProj.toAff.y * q.toProj.toAff.y - c.a * (p.toProj.toAff.x * q.toProj.toAff.x)) * (p.Z * q.Z) ^ 2 * (1 + k) := by
    simp only [hk, kappa, Ext.add, Ext.toProj, Proj.toAff, hT1, hT2]; field_simp; try ring
  have hZ : (Ext.add c p q).Z = (p.Z * q.Z) ^ 2 * ((1 - k) * (1 + k)) := by
    simp only [hk, kappa, Ext.add, Ext.toProj, Proj.toAff, hT1, hT2]; field_simp; try ring
  have hT : (Ext.add c p q).T = (p.toProj.toAff.x * q.toProj.toAff.y + p.toProj.toAff.y * q.toProj.toAff.x) *
      (p.toProj.toAff.y * q.toProj.toAff.y - c.a * (p.toProj.toAff.x * q.toProj.toAff.x)) * (p.Z * q.Z) ^ 2 := by
    simp only [Ext.add, Ext.toProj, Proj.toAff, hT1, hT2]; field_simp; try ring
  refine ⟨⟨by rw [hZ]; exact mul_ne_zero hW (mul_ne_zero h2 h1), by rw [hT, hZ, hX, hY]; ring⟩, ?_⟩
  apply aff_ext
  · show (Ext.add c p q).X * (Ext.add c p q).Z⁻¹ = _
    rw [hX, hZ]
    simp only [Aff.add]
    rw [hk2]
    field_simp
  · show (Ext.add c p q).Y * (Ext.add c p q).Z⁻¹ = _
    rw [hY, hZ]
    simp only [Aff.add]
    rw [hk2]
    field_simp

/-- **`ExtendedAddNormalized`** (the repository's own mixed formula, second operand `Z = 1`,
`T = X·Y`) is extended addition with the normalised operand. -/
theorem addN_eq_add (c : Curve F) (p : Ext F) (q : ExtN F) :
    Ext.addN c p q = Ext.add c p ⟨q.X, q.Y, 1, q.T⟩ := by
  simp only [Ext.addN, Ext.add, mul_one]

/-- negation of a normalised table entry is the negated point -/
theorem extN_neg (q : Aff F) : (ExtN.ofAff q).neg = ExtN.ofAff q.neg := by
  simp [ExtN.neg, ExtN.ofAff, Aff.neg]

/-- `Sub` is `Add` of the negation (for every aliasing pattern the model is a pure function) -/
theorem sub_eq_add_neg (p q : Pt) : p - q = p + -q := rfl

end GoIpa.C08
