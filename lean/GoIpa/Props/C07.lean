/-
  C07 / C11 — `Equal`, the compressed encoding and `x/y` are complete invariants of the
  Banderwagon class `{(x,y), (-x,-y)}`, for every field and every twisted Edwards curve whose
  parameters `a`, `d` are non-squares (true for Bandersnatch, see `GoIpa.Props.Consts`).
-/
import Mathlib.Tactic.Ring
import Mathlib.Tactic.LinearCombination
import Mathlib.Tactic.FieldSimp
import Mathlib.Tactic.Linarith
import Mathlib.Algebra.Field.Basic
import Mathlib.Algebra.Group.Even
import GoIpa.Model.Element
namespace GoIpa.C07
open GoIpa

variable {F : Type} [Field F] [DecidableEq F]

/-- a valid representation: finite (`Z ≠ 0`) and on the curve -/
def Valid (c : Curve F) (p : Proj F) : Prop := p.Z ≠ 0 ∧ (p.toAff).onCurve c

/-- two representations denote the same Banderwagon element -/
def ClassEq (p q : Proj F) : Prop := p.toAff = q.toAff ∨ p.toAff = (q.toAff).flip

theorem y_ne_zero (c : Curve F) (ha : ¬IsSquare c.a) (p : Aff F) (h : p.onCurve c) : p.y ≠ 0 := by
  intro hy
  unfold Aff.onCurve at h
  rw [hy] at h
  have hx : p.x ≠ 0 := by
    intro hx; rw [hx] at h; simp at h
  apply ha
  refine ⟨p.x⁻¹, ?_⟩
  field_simp
  linear_combination h

theorem one_sub_d_sq_ne_zero (c : Curve F) (hd : ¬IsSquare c.d) (m : F) : 1 - c.d * m ^ 2 ≠ 0 := by
  intro h
  have hm : m ≠ 0 := by
    intro hm; rw [hm] at h; simp at h
  apply hd
  refine ⟨m⁻¹, ?_⟩
  field_simp
  linear_combination -h

/-- **`x/y` separates classes.** Two curve points with `x₁ y₂ = x₂ y₁` are equal or each
other's `(-x,-y)` image. -/
theorem ratio_injective (c : Curve F) (ha : ¬IsSquare c.a) (hd : ¬IsSquare c.d) (p q : Aff F)
    (hp : p.onCurve c) (hq : q.onCurve c) (hr : p.x * q.y = q.x * p.y) : q = p ∨ q = p.flip := by
  have hy0 : p.y ≠ 0 := y_ne_zero c ha p hp
  unfold Aff.onCurve at hp hq
  have key : (p.y ^ 2 - q.y ^ 2) * (1 - c.d * (p.x * q.y) ^ 2) = 0 := by
    linear_combination (q.y ^ 2) * hp - (p.y ^ 2) * hq + (c.d * q.y ^ 2 - c.a) * (p.x * q.y + q.x * p.y) * hr
  rcases mul_eq_zero.mp key with h | h
  · have : (p.y - q.y) * (p.y + q.y) = 0 := by linear_combination h
    rcases mul_eq_zero.mp this with h1 | h1
    · left
      have hy : q.y = p.y := by linear_combination -h1
      rw [hy] at hr
      have hx : q.x = p.x := (mul_right_cancel₀ hy0 hr).symm
      cases p; cases q; simp_all
    · right
      have hy : q.y = -p.y := by linear_combination h1
      rw [hy] at hr
      have hx : q.x = -p.x := by
        have : (-p.x) * p.y = q.x * p.y := by linear_combination hr
        exact (mul_right_cancel₀ hy0 this).symm
      cases p; cases q; simp_all [Aff.flip]
  · exact absurd h (one_sub_d_sq_ne_zero c hd _)

/-- both members of a class lie on the curve together -/
theorem flip_onCurve (c : Curve F) (p : Aff F) (h : p.onCurve c) : p.flip.onCurve c := by
  unfold Aff.onCurve Aff.flip at *
  simp only
  linear_combination h

/-- the cross-multiplied test of `Element.Equal` on affine points -/
theorem cross_iff_class (c : Curve F) (ha : ¬IsSquare c.a) (hd : ¬IsSquare c.d) (p q : Aff F)
    (hp : p.onCurve c) (hq : q.onCurve c) : p.x * q.y = p.y * q.x ↔ (p = q ∨ p = q.flip) := by
  constructor
  · intro h
    rcases ratio_injective c ha hd q p hq hp (by linear_combination -h) with e | e
    · exact Or.inl e
    · exact Or.inr e
  · rintro (e | e)
    · subst e; ring
    · rw [e]; simp [Aff.flip]; ring

/-- **`Equal` decides the class.** For valid representations (any projective scaling, either
member of the class) `Element.Equal` is true exactly for representations of the same element. -/
theorem equal_iff_class (c : Curve F) (ha : ¬IsSquare c.a) (hd : ¬IsSquare c.d) (p q : Proj F)
    (hp : Valid c p) (hq : Valid c q) : Proj.equalE p q = true ↔ ClassEq p q := by
  obtain ⟨hpz, hpc⟩ := hp
  obtain ⟨hqz, hqc⟩ := hq
  have hpy := y_ne_zero c ha _ hpc
  have hqy := y_ne_zero c ha _ hqc
  have hpY : p.Y ≠ 0 := by
    intro h; apply hpy; simp [Proj.toAff, h]
  have hqY : q.Y ≠ 0 := by
    intro h; apply hqy; simp [Proj.toAff, h]
  unfold Proj.equalE
  have g1 : ¬(p.X = 0 ∧ p.Y = 0) := fun h => hpY h.2
  have g2 : ¬(q.X = 0 ∧ q.Y = 0) := fun h => hqY h.2
  simp only [g1, g2, ↓reduceIte, decide_eq_true_eq]
  rw [ClassEq, ← cross_iff_class c ha hd _ _ hpc hqc]
  simp only [Proj.toAff]
  constructor
  · intro h
    field_simp
    linear_combination h
  · intro h
    field_simp at h
    linear_combination h

/-- **`Equal` is never true when one side is the all-zero (uninitialised) value.** -/
theorem equal_zero_false (p : Proj F) : Proj.equalE (⟨0, 0, 0⟩ : Proj F) p = false ∧
    Proj.equalE p (⟨0, 0, 0⟩ : Proj F) = false := by
  unfold Proj.equalE
  constructor
  · simp
  · by_cases h : p.X = 0 ∧ p.Y = 0 <;> simp [h]

/-- `ClassEq` is an equivalence relation -/
theorem classEq_refl (p : Proj F) : ClassEq p p := Or.inl rfl

theorem flip_flip (p : Aff F) : p.flip.flip = p := by
  cases p; simp [Aff.flip]

theorem classEq_symm {p q : Proj F} (h : ClassEq p q) : ClassEq q p := by
  rcases h with h | h
  · exact Or.inl h.symm
  · right; rw [h, flip_flip]

theorem classEq_trans {p q r : Proj F} (h : ClassEq p q) (h' : ClassEq q r) : ClassEq p r := by
  rcases h with h | h <;> rcases h' with h' | h'
  · exact Or.inl (h.trans h')
  · exact Or.inr (h.trans h')
  · right; rw [h, h']
  · left; rw [h, h', flip_flip]

/-- **`Equal` is reflexive, symmetric and transitive on valid elements.** -/
theorem equal_refl (c : Curve F) (ha : ¬IsSquare c.a) (hd : ¬IsSquare c.d) (p : Proj F) (hp : Valid c p) :
    Proj.equalE p p = true := (equal_iff_class c ha hd p p hp hp).mpr (classEq_refl p)

theorem equal_symm (c : Curve F) (ha : ¬IsSquare c.a) (hd : ¬IsSquare c.d) (p q : Proj F)
    (hp : Valid c p) (hq : Valid c q) (h : Proj.equalE p q = true) : Proj.equalE q p = true :=
  (equal_iff_class c ha hd q p hq hp).mpr (classEq_symm ((equal_iff_class c ha hd p q hp hq).mp h))

theorem equal_trans (c : Curve F) (ha : ¬IsSquare c.a) (hd : ¬IsSquare c.d) (p q r : Proj F)
    (hp : Valid c p) (hq : Valid c q) (hr : Valid c r)
    (h : Proj.equalE p q = true) (h' : Proj.equalE q r = true) : Proj.equalE p r = true :=
  (equal_iff_class c ha hd p r hp hr).mpr
    (classEq_trans ((equal_iff_class c ha hd p q hp hq).mp h) ((equal_iff_class c ha hd q r hq hr).mp h'))

/-- projective rescaling and the `(-x,-y)` image do not change the class -/
theorem classEq_scale (p : Proj F) (l : F) (hl : l ≠ 0) (hz : p.Z ≠ 0) :
    ClassEq (⟨l * p.X, l * p.Y, l * p.Z⟩ : Proj F) p := by
  left
  simp only [Proj.toAff]
  congr 1 <;> field_simp

theorem classEq_flip (p : Proj F) : ClassEq (⟨-p.X, -p.Y, p.Z⟩ : Proj F) p := by
  right
  simp [Proj.toAff, Aff.flip]

/-! ### the compressed encoding -/

section encode
variable (lexLargest : F → Bool) (enc : F → Bytes)

/-- the canonical `x` of a class: `x` if `y` is the larger root, else `-x` -/
def canonX (p : Aff F) : F := if lexLargest p.y then p.x else -p.x

theorem aff_ext (p q : Aff F) (hx : p.x = q.x) (hy : p.y = q.y) : p = q := by
  cases p; cases q; simp_all

theorem encode_eq (p : Proj F) : Proj.encode lexLargest enc p = enc (canonX lexLargest p.toAff) := by
  unfold Proj.encode canonX
  by_cases h : p.Z = 1
  · by_cases hl : lexLargest p.Y <;> simp [h, hl, Proj.toAff]
  · by_cases hl : lexLargest p.toAff.y <;> simp [h, hl]

/-- **Equal bytes iff equal elements.** With a sign predicate that is exchanged by negation on
non-zero values and an injective field encoder, two valid representations have the same
compressed encoding exactly when they denote the same element. -/
theorem bytes_iff_class (c : Curve F) (ha : ¬IsSquare c.a) (hd : ¬IsSquare c.d)
    (hlex : ∀ y : F, y ≠ 0 → lexLargest (-y) = !lexLargest y) (henc : Function.Injective enc)
    (p q : Proj F) (hp : Valid c p) (hq : Valid c q) :
    Proj.encode lexLargest enc p = Proj.encode lexLargest enc q ↔ ClassEq p q := by
  rw [encode_eq, encode_eq]
  have hpy := y_ne_zero c ha _ hp.2
  have hqy := y_ne_zero c ha _ hq.2
  constructor
  · intro h
    have hx : canonX lexLargest p.toAff = canonX lexLargest q.toAff := henc h
    have hP := hp.2
    have hQ := hq.2
    unfold ClassEq
    unfold canonX at hx
    -- x₁² = x₂², hence y₁² = y₂²
    have hxx : p.toAff.x ^ 2 = q.toAff.x ^ 2 := by
      by_cases h1 : lexLargest p.toAff.y <;> by_cases h2 : lexLargest q.toAff.y <;>
        simp only [h1, h2, ↓reduceIte, Bool.false_eq_true] at hx <;>
        (have := congrArg (fun t => t ^ 2) hx; simpa only [neg_sq] using this)
    have hyy : (p.toAff.y - q.toAff.y) * (p.toAff.y + q.toAff.y) = 0 := by
      unfold Aff.onCurve at hP hQ
      have h1 : (p.toAff.y ^ 2 - q.toAff.y ^ 2) * (1 - c.d * p.toAff.x ^ 2) = 0 := by
        linear_combination hP - hQ + (c.d * q.toAff.y ^ 2 - c.a) * hxx
      rcases mul_eq_zero.mp h1 with h2 | h2
      · linear_combination h2
      · exact absurd h2 (one_sub_d_sq_ne_zero c hd _)
    rcases mul_eq_zero.mp hyy with h1 | h1
    · have hy : p.toAff.y = q.toAff.y := by linear_combination h1
      left
      rw [hy] at hx
      apply aff_ext _ _ _ hy
      by_cases h2 : lexLargest q.toAff.y <;> simp only [h2, ↓reduceIte, Bool.false_eq_true] at hx
      · exact hx
      · exact neg_injective hx
    · have hy : p.toAff.y = -q.toAff.y := by linear_combination h1
      right
      have hl := hlex q.toAff.y hqy
      rw [hy, hl] at hx
      apply aff_ext
      · simp only [Aff.flip]
        by_cases h2 : lexLargest q.toAff.y <;> simp only [h2, ↓reduceIte, Bool.false_eq_true, Bool.not_true, Bool.not_false] at hx
        · rw [← hx]; ring
        · exact hx
      · simpa [Aff.flip] using hy
  · rintro (e | e)
    · rw [e]
    · rw [e]
      congr 1
      unfold canonX Aff.flip
      simp only [hlex _ hqy]
      by_cases h2 : lexLargest (q.toAff).y <;> simp [h2]

end encode

/-! ### C11: map to the base field -/

/-- **`x/y` is a complete class invariant**: equal for class-equal representations (any
scaling, either member) and different for different elements. -/
theorem map_iff_class (c : Curve F) (ha : ¬IsSquare c.a) (hd : ¬IsSquare c.d) (p q : Proj F)
    (hp : Valid c p) (hq : Valid c q) : p.mapToBase = q.mapToBase ↔ ClassEq p q := by
  rw [← equal_iff_class c ha hd p q hp hq]
  obtain ⟨hpz, hpc⟩ := hp
  obtain ⟨hqz, hqc⟩ := hq
  have hpY : p.Y ≠ 0 := by
    intro h; apply y_ne_zero c ha _ hpc; simp [Proj.toAff, h]
  have hqY : q.Y ≠ 0 := by
    intro h; apply y_ne_zero c ha _ hqc; simp [Proj.toAff, h]
  unfold Proj.equalE Proj.mapToBase
  have g1 : ¬(p.X = 0 ∧ p.Y = 0) := fun h => hpY h.2
  have g2 : ¬(q.X = 0 ∧ q.Y = 0) := fun h => hqY h.2
  simp only [g1, g2, ↓reduceIte, decide_eq_true_eq]
  constructor
  · intro h
    field_simp at h
    linear_combination h
  · intro h
    field_simp
    linear_combination h

end GoIpa.C07
