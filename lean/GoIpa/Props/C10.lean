/-
  C10 — proof deserialisation is independent of how a well-behaved reader chunks the stream,
  and accepts exactly the well-formed 576-byte strings.
-/
import Mathlib.Tactic.Ring
import GoIpa.Model.Serde
namespace GoIpa.C10
open GoIpa

/-- a reader without injected I/O failure -/
def WellBehaved (r : Reader) : Prop := r.failAfter = none

/-- the chunk limit of the next read -/
def nextLim (r : Reader) (want : Nat) : Nat :=
  match r.chunks with | [] => want | c :: _ => min want (max c 1)

theorem read_eq (r : Reader) (want : Nat) (hw : WellBehaved r) (hne : r.data ≠ []) :
    r.read want = (r.data.take (nextLim r want),
      (if (r.data.drop (nextLim r want)).isEmpty && r.eofWithData then some IoErr.eof else none),
      { r with data := r.data.drop (nextLim r want), chunks := r.chunks.drop 1,
               delivered := r.delivered + (r.data.take (nextLim r want)).length }) := by
  unfold WellBehaved at hw
  have hemp : r.data.isEmpty = false := by
    cases h : r.data with
    | nil => exact absurd h hne
    | cons _ _ => rfl
  unfold Reader.read
  rw [hw]
  simp only [Reader.read.go, hemp, Bool.false_eq_true, ↓reduceIte, hw]
  rfl

theorem read_spec (r : Reader) (want : Nat) (hw : WellBehaved r) (hwant : 0 < want) (hne : r.data ≠ []) :
    ∃ k, 0 < k ∧ k ≤ want ∧ k ≤ r.data.length ∧ (r.read want).1 = r.data.take k ∧
      (r.read want).2.2.data = r.data.drop k ∧ WellBehaved (r.read want).2.2 ∧
      (r.read want).2.2.eofWithData = r.eofWithData ∧
      ((r.read want).2.1 = none ∨ ((r.read want).2.1 = some .eof ∧ r.data.drop k = [])) := by
  have hlen : 0 < r.data.length := List.length_pos_iff.mpr hne
  rw [read_eq r want hw hne]
  have hl1 : 0 < nextLim r want ∧ nextLim r want ≤ want := by
    unfold nextLim; cases r.chunks with
    | nil => exact ⟨hwant, le_refl _⟩
    | cons c _ => simp only; omega
  have ht : List.take (nextLim r want) r.data = List.take (min (nextLim r want) r.data.length) r.data := by
    rw [List.take_eq_take_iff]; omega
  have hd : List.drop (nextLim r want) r.data = List.drop (min (nextLim r want) r.data.length) r.data := by
    rw [List.drop_eq_drop_iff]; omega
  refine ⟨min (nextLim r want) r.data.length, by omega, by omega, by omega, ht, hd, hw, rfl, ?_⟩
  simp only
  rw [← hd]
  by_cases h : (List.drop (nextLim r want) r.data).isEmpty && r.eofWithData
  · right
    simp only [h, ↓reduceIte, true_and]
    simp only [Bool.and_eq_true, List.isEmpty_iff] at h
    exact h.1
  · left; simp only [h, Bool.false_eq_true, ↓reduceIte]

/-- **`io.ReadFull` over any well-behaved reader** returns exactly the next `want` bytes when the
stream still holds that many — whatever the chunking and whether EOF arrives together with the
last bytes or separately — and fails when it does not. -/
theorem readFull_spec : ∀ (fuel : Nat) (r : Reader) (want : Nat) (acc : Bytes), WellBehaved r →
    want - acc.length < fuel → acc.length ≤ want →
    (want ≤ acc.length + r.data.length →
      ∃ r', readFull fuel r want acc = (.ok (acc ++ r.data.take (want - acc.length)), r') ∧
        r'.data = r.data.drop (want - acc.length) ∧ WellBehaved r' ∧ r'.eofWithData = r.eofWithData) ∧
    (acc.length + r.data.length < want →
      ∃ e r', readFull fuel r want acc = (.error e, r') ∧ (acc.length + r.data.length = 0 → e = .eof) ∧
        (0 < acc.length + r.data.length → e = .unexpectedEOF)) := by
  intro fuel
  induction fuel with
  | zero => intro r want acc _ h _; omega
  | succ fuel ih =>
    intro r want acc hw hf hacc
    unfold readFull
    by_cases hdone : acc.length ≥ want
    · have : want - acc.length = 0 := by omega
      simp only [hdone, ↓reduceIte, this, List.take_zero, List.append_nil, List.drop_zero]
      exact ⟨fun _ => ⟨r, rfl, rfl, hw, rfl⟩, fun h => by omega⟩
    · simp only [hdone, ↓reduceIte]
      by_cases hne : r.data = []
      · -- stream exhausted: the read reports EOF
        have hemp : r.data.isEmpty = true := by rw [hne]; rfl
        have hread : r.read (want - acc.length) = ([], some .eof, r) := by
          unfold Reader.read
          unfold WellBehaved at hw
          rw [hw]
          simp only [Reader.read.go, hemp, ↓reduceIte]
        rw [hread]
        simp only [List.append_nil, hdone, ↓reduceIte]
        refine ⟨fun h => by rw [hne] at h; simp at h; omega, fun _ => ?_⟩
        by_cases hpos : acc.length > 0
        · simp only [hpos, and_self, ↓reduceIte]
          exact ⟨_, _, rfl, fun h => by omega, fun _ => rfl⟩
        · simp only [hpos, false_and, ↓reduceIte]
          exact ⟨_, _, rfl, fun _ => rfl, fun h => by rw [hne] at h; simp at h; omega⟩
      · obtain ⟨k, hk0, hkw, hkd, hout, hdata, hwb, heof, herr⟩ :=
          read_spec r (want - acc.length) hw (by omega) hne
        rcases hr : r.read (want - acc.length) with ⟨out, err, r'⟩
        rw [hr] at hout hdata hwb heof herr
        simp only at hout hdata hwb heof herr ⊢
        have hlen : (acc ++ out).length = acc.length + k := by
          rw [hout]; simp; omega
        have key := ih r' want (acc ++ out) hwb (by omega) (by omega)
        have hd : r'.data.length = r.data.length - k := by rw [hdata]; simp
        rcases herr with he | ⟨he, hnil⟩
        · rw [he]
          simp only
          constructor
          · intro hge
            obtain ⟨r'', h1, h2, h3, h4⟩ := key.1 (by omega)
            refine ⟨r'', ?_, ?_, h3, by rw [h4, heof]⟩
            · rw [h1]
              congr 1
              rw [hlen, hout, hdata, List.append_assoc]
              congr 1
              have e : want - acc.length = k + (want - (acc.length + k)) := by omega
              rw [e, List.take_add]
            · rw [h2, hdata, hlen, List.drop_drop]; congr 1; omega
          · intro hlt
            obtain ⟨e, r'', h1, h2, h3⟩ := key.2 (by omega)
            exact ⟨e, r'', h1, fun h => by omega, fun _ => h3 (by omega)⟩
        · rw [he]
          simp only
          have hdl : r.data.length = k := by
            have := congrArg List.length hnil; simp at this; omega
          by_cases hfull : (acc ++ out).length ≥ want
          · simp only [hfull, ↓reduceIte]
            refine ⟨fun _ => ⟨r', ?_, ?_, hwb, heof⟩, fun h => by omega⟩
            · have : want - acc.length = k := by omega
              rw [this, hout]
            · have : want - acc.length = k := by omega
              rw [this, hdata]
          · simp only [hfull, ↓reduceIte]
            refine ⟨fun h => by omega, fun _ => ?_⟩
            have hpos : (acc ++ out).length > 0 := by omega
            simp only [hpos, and_self, ↓reduceIte]
            exact ⟨_, _, rfl, fun h => by omega, fun _ => rfl⟩

/-! ### the pure (one-shot) readers: functions of the byte string alone -/

def takeField (b : Bytes) (want : Nat) : Except IoErr (Bytes × Bytes) :=
  if want ≤ b.length then .ok (b.take want, b.drop want)
  else .error (if b.length = 0 then .eof else .unexpectedEOF)

def pReadPoint (sqrt : Fp → Option Fp) (b : Bytes) : Except RdErr (Pt × Bytes) :=
  match takeField b 32 with
  | .error e => .error (.io e)
  | .ok (f, rest) => match decodeCompressed sqrt f with
    | .ok p => .ok (p, rest)
    | .error e => .error (.point e)

def pReadScalar (b : Bytes) : Except RdErr (Fr × Bytes) :=
  match takeField b 32 with
  | .error e => .error (.io e)
  | .ok (f, rest) => match Fr.setBytesLECanonical f with
    | some s => .ok (s, rest)
    | none => .error .scalar

def pReadPoints (sqrt : Fp → Option Fp) : Nat → Bytes → Except RdErr (List Pt × Bytes)
  | 0, b => .ok ([], b)
  | n + 1, b => match pReadPoint sqrt b with
    | .error e => .error e
    | .ok (p, b) => match pReadPoints sqrt n b with
      | .error e => .error e
      | .ok (ps, b) => .ok (p :: ps, b)

def pIpaRead (sqrt : Fp → Option Fp) (b : Bytes) : Except RdErr (IpaProof Fr Pt × Bytes) :=
  match pReadPoints sqrt 8 b with
  | .error e => .error e
  | .ok (L, b) => match pReadPoints sqrt 8 b with
    | .error e => .error e
    | .ok (Rr, b) => match pReadScalar b with
      | .error e => .error e
      | .ok (a, b) => .ok (⟨L, Rr, a⟩, b)

/-- the one-shot specification of `MultiProof.Read` -/
def pMpRead (sqrt : Fp → Option Fp) (b : Bytes) : Except RdErr (MultiProof Fr Pt) :=
  match pReadPoint sqrt b with
  | .error e => .error e
  | .ok (D, b) => match pIpaRead sqrt b with
    | .error e => .error e
    | .ok (ip, b) => if b.length = 0 then .ok ⟨ip, D⟩ else .error .trailing

/-- the result of a scripted read, compared with the pure reader: same value, and the reader
is left well-behaved on the rest of the stream -/
def Agrees {α : Type} (res : Except RdErr α × Reader) (pure : Except RdErr (α × Bytes)) : Prop :=
  match res.1, pure with
  | .ok v, .ok (v', rest) => v = v' ∧ res.2.data = rest ∧ WellBehaved res.2
  | .error e, .error e' => e = e'
  | _, _ => False

theorem full_agrees (r : Reader) (hw : WellBehaved r) (want : Nat) :
    match r.full want, takeField r.data want with
    | (.ok v, r'), .ok (v', rest) => v = v' ∧ r'.data = rest ∧ WellBehaved r'
    | (.error e, _), .error e' => e = e'
    | _, _ => False := by
  unfold Reader.full takeField
  have h := readFull_spec (want + 1) r want [] hw (by simp) (by simp)
  by_cases hle : want ≤ r.data.length
  · obtain ⟨r', h1, h2, h3, _⟩ := h.1 (by simpa using hle)
    simp only [hle, ↓reduceIte]
    rw [h1]
    simp only [List.length_nil, Nat.sub_zero, List.nil_append] at h2 ⊢
    exact ⟨trivial, h2, h3⟩
  · obtain ⟨e, r', h1, h2, h3⟩ := h.2 (by simp; omega)
    simp only [hle, ↓reduceIte]
    rw [h1]
    simp only
    by_cases h0 : r.data.length = 0
    · simp only [h0, ↓reduceIte]; exact h2 (by simpa using h0)
    · simp only [h0, ↓reduceIte]; exact h3 (by simp; omega)

theorem readPoint_agrees (sqrt : Fp → Option Fp) (r : Reader) (hw : WellBehaved r) :
    Agrees (readPoint sqrt r) (pReadPoint sqrt r.data) := by
  have h := full_agrees r hw 32
  unfold readPoint pReadPoint Agrees
  rcases hf : r.full 32 with ⟨res, r'⟩
  rcases ht : takeField r.data 32 with e' | ⟨f, rest⟩
  · rw [hf, ht] at h
    cases res with
    | error e => simp only at h ⊢; rw [h]
    | ok v => simp only at h
  · rw [hf, ht] at h
    cases res with
    | error e => simp only at h
    | ok v =>
      simp only at h ⊢
      obtain ⟨hv, hd, hwb⟩ := h
      subst hv
      cases decodeCompressed sqrt v with
      | ok p => exact ⟨rfl, hd, hwb⟩
      | error e => rfl

theorem readScalar_agrees (r : Reader) (hw : WellBehaved r) :
    Agrees (readScalar r) (pReadScalar r.data) := by
  have h := full_agrees r hw 32
  unfold readScalar pReadScalar Agrees
  rcases hf : r.full 32 with ⟨res, r'⟩
  rcases ht : takeField r.data 32 with e' | ⟨f, rest⟩
  · rw [hf, ht] at h
    cases res with
    | error e => simp only at h ⊢; rw [h]
    | ok v => simp only at h
  · rw [hf, ht] at h
    cases res with
    | error e => simp only at h
    | ok v =>
      simp only at h ⊢
      obtain ⟨hv, hd, hwb⟩ := h
      subst hv
      cases Fr.setBytesLECanonical v with
      | some p => exact ⟨rfl, hd, hwb⟩
      | none => rfl

theorem readPoints_agrees (sqrt : Fp → Option Fp) : ∀ (n : Nat) (r : Reader), WellBehaved r →
    Agrees (readPoints sqrt n r) (pReadPoints sqrt n r.data) := by
  intro n
  induction n with
  | zero => intro r hw; exact ⟨rfl, rfl, hw⟩
  | succ n ih =>
    intro r hw
    have h1 := readPoint_agrees sqrt r hw
    unfold readPoints pReadPoints
    unfold Agrees at h1
    rcases hp : readPoint sqrt r with ⟨res, r'⟩
    rcases hq : pReadPoint sqrt r.data with e' | ⟨p', rest⟩
    · rw [hp, hq] at h1
      cases res with
      | error e => simp only at h1 ⊢; unfold Agrees; simp only [h1]
      | ok v => simp only at h1
    · rw [hp, hq] at h1
      cases res with
      | error e => simp only at h1
      | ok v =>
        simp only at h1 ⊢
        obtain ⟨hv, hd, hwb⟩ := h1
        subst hv
        have h2 := ih r' hwb
        rw [hd] at h2
        unfold Agrees at h2 ⊢
        rcases hp2 : readPoints sqrt n r' with ⟨res2, r''⟩
        rcases hq2 : pReadPoints sqrt n rest with e2 | ⟨ps, rest2⟩
        · rw [hp2, hq2] at h2
          cases res2 with
          | error e => simp only at h2 ⊢; rw [h2]
          | ok v2 => simp only at h2
        · rw [hp2, hq2] at h2
          cases res2 with
          | error e => simp only at h2
          | ok v2 =>
            simp only at h2 ⊢
            exact ⟨by rw [h2.1], h2.2.1, h2.2.2⟩

theorem ipaRead_agrees (sqrt : Fp → Option Fp) (r : Reader) (hw : WellBehaved r) :
    Agrees (ipaRead sqrt r) (pIpaRead sqrt r.data) := by
  unfold ipaRead pIpaRead
  have h1 := readPoints_agrees sqrt 8 r hw
  unfold Agrees at h1 ⊢
  rcases hp : readPoints sqrt 8 r with ⟨res, r1⟩
  rcases hq : pReadPoints sqrt 8 r.data with e' | ⟨L', rest⟩
  · rw [hp, hq] at h1
    cases res with
    | error e => simp only at h1 ⊢; rw [h1]
    | ok v => simp only at h1
  · rw [hp, hq] at h1
    cases res with
    | error e => simp only at h1
    | ok L =>
      simp only at h1 ⊢
      obtain ⟨hv, hd, hwb⟩ := h1
      subst hv
      have h2 := readPoints_agrees sqrt 8 r1 hwb
      rw [hd] at h2
      unfold Agrees at h2
      rcases hp2 : readPoints sqrt 8 r1 with ⟨res2, r2⟩
      rcases hq2 : pReadPoints sqrt 8 rest with e2 | ⟨R', rest2⟩
      · rw [hp2, hq2] at h2
        cases res2 with
        | error e => simp only at h2 ⊢; rw [h2]
        | ok v => simp only at h2
      · rw [hp2, hq2] at h2
        cases res2 with
        | error e => simp only at h2
        | ok Rr =>
          simp only at h2 ⊢
          obtain ⟨hv2, hd2, hwb2⟩ := h2
          subst hv2
          have h3 := readScalar_agrees r2 hwb2
          rw [hd2] at h3
          unfold Agrees at h3
          rcases hp3 : readScalar r2 with ⟨res3, r3⟩
          rcases hq3 : pReadScalar rest2 with e3 | ⟨a', rest3⟩
          · rw [hp3, hq3] at h3
            cases res3 with
            | error e => simp only at h3 ⊢; rw [h3]
            | ok v => simp only at h3
          · rw [hp3, hq3] at h3
            cases res3 with
            | error e => simp only at h3
            | ok a =>
              simp only at h3 ⊢
              exact ⟨by rw [h3.1], h3.2.1, h3.2.2⟩

/-- **Chunking invariance.** For every well-behaved reader — any chunk sizes, EOF reported with
the last data or separately — `MultiProof.Read` returns exactly what the one-shot specification
returns on the reader's byte stream: same proof, or the same class of error. -/
theorem mpRead_eq_pure (sqrt : Fp → Option Fp) (r : Reader) (hw : WellBehaved r) :
    mpRead sqrt r = pMpRead sqrt r.data := by
  unfold mpRead pMpRead
  have h1 := readPoint_agrees sqrt r hw
  unfold Agrees at h1
  rcases hp : readPoint sqrt r with ⟨res, r1⟩
  rcases hq : pReadPoint sqrt r.data with e' | ⟨D', rest⟩
  · rw [hp, hq] at h1
    cases res with
    | error e => simp only at h1 ⊢; rw [h1]
    | ok v => simp only at h1
  · rw [hp, hq] at h1
    cases res with
    | error e => simp only at h1
    | ok D =>
      simp only at h1 ⊢
      obtain ⟨hv, hd, hwb⟩ := h1
      subst hv
      have h2 := ipaRead_agrees sqrt r1 hwb
      rw [hd] at h2
      unfold Agrees at h2
      rcases hp2 : ipaRead sqrt r1 with ⟨res2, r2⟩
      rcases hq2 : pIpaRead sqrt rest with e2 | ⟨ip', rest2⟩
      · rw [hp2, hq2] at h2
        cases res2 with
        | error e => simp only at h2 ⊢; rw [h2]
        | ok v => simp only at h2
      · rw [hp2, hq2] at h2
        cases res2 with
        | error e => simp only at h2
        | ok ip =>
          simp only at h2 ⊢
          obtain ⟨hv2, hd2, hwb2⟩ := h2
          subst hv2
          -- the end-of-stream probe
          have h3 := full_agrees r2 hwb2 1
          rw [hd2] at h3
          unfold takeField at h3
          rcases hf : r2.full 1 with ⟨res3, r3⟩
          rw [hf] at h3
          by_cases hl : rest2.length = 0
          · have : ¬ (1 ≤ rest2.length) := by omega
            simp only [this, ↓reduceIte, hl] at h3
            cases res3 with
            | error e => subst h3; simp [hl]
            | ok v => exact h3.elim
          · have : 1 ≤ rest2.length := by omega
            simp only [this, ↓reduceIte] at h3
            cases res3 with
            | error e => exact h3.elim
            | ok v => simp [hl]

/-- corollary: two well-behaved readers over the same bytes give the same outcome -/
theorem mpRead_chunking_invariant (sqrt : Fp → Option Fp) (r r' : Reader) (hw : WellBehaved r) (hw' : WellBehaved r')
    (hd : r.data = r'.data) : mpRead sqrt r = mpRead sqrt r' := by
  rw [mpRead_eq_pure sqrt r hw, mpRead_eq_pure sqrt r' hw', hd]

/-- `IPAProof.Read` consumes exactly 544 bytes when it succeeds -/
theorem takeField_length (b f rest : Bytes) (want : Nat) (h : takeField b want = .ok (f, rest)) :
    b.length = want + rest.length ∧ f.length = want := by
  unfold takeField at h
  split at h
  · cases h; simp; omega
  · cases h

/-- **Write fault.** A writer failing at any of the 18 write calls makes `Write` fail. -/
theorem write_fault (chunks : List Bytes) (j : Nat) (hj : j < chunks.length) :
    writeChunks chunks (some j) = .error () := by
  simp [writeChunks, hj]

theorem write_ok (chunks : List Bytes) : writeChunks chunks none = .ok chunks.flatten := rfl

theorem mp_chunks_length (p : MultiProof Fr Pt) (hL : p.ipa.L.length = 8) (hR : p.ipa.R.length = 8) :
    p.chunks.length = 18 := by
  simp [MultiProof.chunks, hL, hR]

end GoIpa.C10
