/-
  C06 — the decoder with the real square root: untrusted compressed decoding succeeds exactly
  for 32-byte canonical encodings of an `x` that is the abscissa of a curve point and passes the
  subgroup test, and what it returns is that point with the lexicographically larger `y`.
-/
import Mathlib.Tactic.FieldSimp
import GoIpa.Props.C06
import GoIpa.Props.Concrete
import GoIpa.Lemmas.SqrtPrecompProof
namespace GoIpa.C06
open GoIpa GoIpa.Zp GoIpa.SqrtPre

/-- the right-hand side of `y² = (a x² − 1)/(d x² − 1)` -/
def radicand (x : Fp) : Fp := (bandersnatch.a * (x * x) - 1) / (bandersnatch.d * (x * x) - 1)

theorem toZ_radicand (x : Fp) :
    Zp.toZ (radicand x) = (Zp.toZ bandersnatch.a * (Zp.toZ x * Zp.toZ x) - 1) /
      (Zp.toZ bandersnatch.d * (Zp.toZ x * Zp.toZ x) - 1) := by
  unfold radicand
  rw [toZ_div, toZ_sub, toZ_sub, toZ_mul, toZ_mul, toZ_mul, toZ_mul, toZ_one]

/-- `d x² − 1` never vanishes, because `d` is not a square -/
theorem den_ne_zero (x : Fp) : Zp.toZ bandersnatch.d * (Zp.toZ x * Zp.toZ x) - 1 ≠ 0 := by
  intro h
  have hd : Zp.toZ bandersnatch.d * (Zp.toZ x * Zp.toZ x) = 1 := by linear_combination h
  have hx : Zp.toZ x ≠ 0 := by
    intro h0; rw [h0] at hd; simp at hd
  apply Concrete.d_not_square
  refine ⟨(Zp.toZ x)⁻¹, ?_⟩
  field_simp
  linear_combination hd

/-- **`x` is the abscissa of a curve point iff the radicand is a square** -/
theorem exists_y_iff (x : Fp) :
    (∃ y : Fp, (⟨x, y⟩ : Aff Fp).onCurve bandersnatch) ↔ IsSquare (Zp.toZ (radicand x)) := by
  have hden := den_ne_zero x
  rw [toZ_radicand]
  constructor
  · rintro ⟨y, hy⟩
    unfold Aff.onCurve at hy
    have := congrArg Zp.toZ hy
    simp only [toZ_add, toZ_mul, toZ_one] at this
    refine ⟨Zp.toZ y, ?_⟩
    rw [div_eq_iff hden]
    linear_combination this
  · rintro ⟨w, hw⟩
    refine ⟨Zp.ofZ w, ?_⟩
    unfold Aff.onCurve
    apply toZ_injective
    simp only [toZ_add, toZ_mul, toZ_one, toZ_ofZ]
    rw [div_eq_iff hden] at hw
    linear_combination hw

/-- `Legendre` in the base field -/
theorem fp_legendre_one_iff (x : Fp) : Fp.legendre x = 1 ↔ (Zp.toZ x ≠ 0 ∧ IsSquare (Zp.toZ x)) := by
  have hexp : (P - 1) / 2 = P / 2 := by decide
  have hpow : Zp.toZ (x ^ ((P - 1) / 2)) = Zp.toZ x ^ (P / 2) := by rw [toZ_pow, hexp]
  unfold Fp.legendre
  simp only
  by_cases hxz : Zp.toZ x = 0
  · have hx0 : x = 0 := by apply toZ_injective; rw [hxz, toZ_zero]
    subst hx0
    have : ((0 : Fp) ^ ((P - 1) / 2)).val = 0 := by decide +kernel
    simp [this]
  · have hne : (x ^ ((P - 1) / 2)).val ≠ 0 := by
      intro h
      have : Zp.toZ (x ^ ((P - 1) / 2)) = 0 := by unfold Zp.toZ; rw [h]; simp
      rw [hpow] at this
      exact hxz (pow_eq_zero_iff (by decide) |>.mp this)
    have heuler := ZMod.euler_criterion P hxz
    rw [if_neg hne]
    constructor
    · intro h
      have h1 : (x ^ ((P - 1) / 2)).val = 1 := by
        by_contra hc; rw [if_neg hc] at h; simp at h
      refine ⟨hxz, ?_⟩
      rw [heuler, ← hpow]; exact (toZ_eq_one_iff _).mpr h1
    · rintro ⟨_, hsq⟩
      rw [heuler, ← hpow] at hsq
      rw [if_pos ((toZ_eq_one_iff _).mp hsq)]

/-- **Subgroup test**: `1 − a x²` is a non-zero square -/
theorem subgroupOk_iff (x : Fp) :
    subgroupOk x = true ↔
      (1 - Zp.toZ bandersnatch.a * (Zp.toZ x * Zp.toZ x) ≠ 0 ∧
        IsSquare (1 - Zp.toZ bandersnatch.a * (Zp.toZ x * Zp.toZ x))) := by
  unfold subgroupOk
  rw [beq_iff_eq, fp_legendre_one_iff]
  simp only [toZ_sub, toZ_mul, toZ_one]

/-- **Untrusted compressed decoding accepts exactly the canonical subgroup encodings.**  It
succeeds iff the input has 32 bytes, its big-endian value `x` is below `p`, `x` is the abscissa
of a curve point, and `1 − a x²` is a non-zero square. -/
theorem decode_accepts_iff (b : Bytes) :
    (∃ p, decodeCompressed Fp.sqrtPrecomp b false = .ok p) ↔
      (b.length = 32 ∧ ∃ h : beNat b < P,
        (∃ y : Fp, (⟨⟨beNat b, h⟩, y⟩ : Aff Fp).onCurve bandersnatch) ∧ subgroupOk ⟨beNat b, h⟩ = true) := by
  constructor
  · rintro ⟨p, hp⟩
    obtain ⟨hl, hlt, hx, _, hsub, hcy⟩ := decode_ok_shape Fp.sqrtPrecomp b p hp
    have hxe : p.X = ⟨beNat b, hlt⟩ := zp_ext _ _ hx
    refine ⟨hl, hlt, ?_, by rw [← hxe]; exact hsub⟩
    rw [← hxe, exists_y_iff]
    by_contra hns
    have hnone := (sqrtPrecomp_spec (radicand p.X)).2.mpr hns
    have := (C17.computeY_none_iff Fp.sqrtPrecomp p.X true).mpr hnone
    rw [this] at hcy
    cases hcy
  · rintro ⟨hl, hlt, hy, hsub⟩
    rw [exists_y_iff] at hy
    have hsome : Fp.sqrtPrecomp (radicand ⟨beNat b, hlt⟩) ≠ none := fun hn =>
      ((sqrtPrecomp_spec _).2.mp hn) hy
    have hcy : computeY Fp.sqrtPrecomp ⟨beNat b, hlt⟩ true ≠ none := fun hn =>
      hsome ((C17.computeY_none_iff Fp.sqrtPrecomp _ true).mp hn)
    obtain ⟨y, hyv⟩ := Option.ne_none_iff_exists'.mp hcy
    refine ⟨⟨⟨beNat b, hlt⟩, y, 1⟩, ?_⟩
    unfold decodeCompressed
    rw [if_neg (fun hne => hne hl), dif_pos hlt]
    simp only
    rw [hyv]
    simp only [hsub, Bool.not_false, Bool.not_true, Bool.and_false, Bool.false_eq_true, ↓reduceIte]

theorem neg_mul_neg_fp (r : Fp) : (-r) * (-r) = r * r := by
  apply toZ_injective; rw [toZ_mul, toZ_mul, Zp.toZ_neg]; ring

/-- for any square-root routine whose results square back, `computeY` returns a root of the radicand -/
theorem computeY_sq (sqrt : Fp → Option Fp) (hsqrt : ∀ v r, sqrt v = some r → r * r = v)
    (x y : Fp) (largest : Bool) (h : computeY sqrt x largest = some y) : y * y = radicand x := by
  unfold computeY at h
  unfold radicand
  cases hs : sqrt ((bandersnatch.a * (x * x) - 1) / (bandersnatch.d * (x * x) - 1)) with
  | none => simp [hs] at h
  | some r =>
    simp only [hs] at h
    have hr := hsqrt _ r hs
    by_cases hl : Fp.lexLargest r = largest
    · simp only [hl, ↓reduceIte, Option.some.injEq] at h
      rw [← h]; exact hr
    · simp only [hl, ↓reduceIte, Option.some.injEq] at h
      rw [← h, neg_mul_neg_fp]; exact hr

/-- **What is returned is the curve point with the larger `y`** -/
theorem decode_returns_point (b : Bytes) (p : Pt) (h : decodeCompressed Fp.sqrtPrecomp b false = .ok p) :
    p.Z = 1 ∧ (⟨p.X, p.Y⟩ : Aff Fp).onCurve bandersnatch ∧ (p.Y.val ≠ 0 → Fp.lexLargest p.Y = true) := by
  obtain ⟨_, _, _, hz, _, hcy⟩ := decode_ok_shape Fp.sqrtPrecomp b p h
  refine ⟨hz, ?_, fun hy => computeY_largest Fp.sqrtPrecomp p.X p.Y hcy hy⟩
  have hsq := computeY_sq Fp.sqrtPrecomp (fun v r hr => (sqrtPrecomp_spec v).1 r hr) p.X p.Y true hcy
  unfold Aff.onCurve
  apply toZ_injective
  have := congrArg Zp.toZ hsq
  rw [toZ_radicand, toZ_mul] at this
  have hden := den_ne_zero p.X
  simp only [toZ_add, toZ_mul, toZ_one]
  rw [eq_div_iff hden] at this
  linear_combination -this

end GoIpa.C06
