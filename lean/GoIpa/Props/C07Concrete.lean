/-
  C07 at the executable types: `Element.Equal`, `Bytes` and decoding on the model's own
  `Pt = Proj Fp` with the real curve constants and the real table-driven square root.
  `a`, `d` non-squares and `p` prime are theorems, so nothing is assumed about the field.
-/
import GoIpa.Props.C07
import GoIpa.Props.C06Exact
import GoIpa.Props.C16
namespace GoIpa.C07
open GoIpa GoIpa.Zp GoIpa.Concrete

theorem isSquare_toZ {x : Fp} (h : IsSquare x) : IsSquare (Zp.toZ x) := by
  obtain ⟨r, hr⟩ := h
  exact ⟨Zp.toZ r, by rw [hr, Zp.toZ_mul]⟩

theorem a_ns : ¬ IsSquare bandersnatch.a := fun h => a_not_square (isSquare_toZ h)
theorem d_ns : ¬ IsSquare bandersnatch.d := fun h => d_not_square (isSquare_toZ h)

/-- **`Equal` on the executable model decides class equality** of valid representations -/
theorem equal_iff_class_pt (p q : Pt) (hp : Valid bandersnatch p) (hq : Valid bandersnatch q) :
    Pt.equal p q = true ↔ ClassEq p q :=
  equal_iff_class bandersnatch a_ns d_ns p q hp hq

theorem neg_val (y : Fp) (hy : y ≠ 0) : (-y).val = P - y.val := by
  have hv : y.val ≠ 0 := by
    intro h; apply hy; exact C06.zp_ext y 0 (by rw [h]; rfl)
  show (Zp.ofNat P (P - y.val)).val = _
  unfold Zp.ofNat
  simp only
  exact Nat.mod_eq_of_lt (by have := y.lt; omega)

/-- negation flips "lexicographically largest" on non-zero elements -/
theorem lex_neg (y : Fp) (hy : y ≠ 0) : Fp.lexLargest (-y) = !Fp.lexLargest y := by
  have hv : y.val ≠ 0 := by
    intro h; apply hy; exact C06.zp_ext y 0 (by rw [h]; rfl)
  unfold Fp.lexLargest
  rw [neg_val y hy]
  have hlt := y.lt
  have hodd : P % 2 = 1 := by decide
  by_cases h : (P - 1) / 2 < y.val
  · have : ¬ (P - 1) / 2 < P - y.val := by omega
    simp [h, this]
  · have : (P - 1) / 2 < P - y.val := by omega
    simp [h, this]

theorem bytesBE_injective : Function.Injective (Zp.bytesBE : Fp → Bytes) := by
  intro a b h
  unfold Zp.bytesBE at h
  have hP : P < 256 ^ 32 := by decide
  have ha := C16.beNat_natToBE 32 a.val (Nat.lt_trans a.lt hP)
  have hb := C16.beNat_natToBE 32 b.val (Nat.lt_trans b.lt hP)
  rw [h] at ha
  exact C06.zp_ext a b (by rw [← ha, hb])

/-- **`Bytes` on the executable model is a complete invariant of the class** -/
theorem bytes_iff_class_pt (p q : Pt) (hp : Valid bandersnatch p) (hq : Valid bandersnatch q) :
    p.bytes = q.bytes ↔ ClassEq p q :=
  bytes_iff_class Fp.lexLargest Zp.bytesBE bandersnatch a_ns d_ns lex_neg bytesBE_injective p q hp hq

/-- **Equal ⇔ same bytes**, on the executable model -/
theorem equal_iff_bytes_pt (p q : Pt) (hp : Valid bandersnatch p) (hq : Valid bandersnatch q) :
    Pt.equal p q = true ↔ p.bytes = q.bytes := by
  rw [equal_iff_class_pt p q hp hq, bytes_iff_class_pt p q hp hq]

/-! ### decoding what `Bytes` wrote -/

theorem bytesBE_length (x : Fp) : (Zp.bytesBE x).length = 32 := by
  unfold Zp.bytesBE natToBE; rw [List.length_reverse, C16.natToLE_length]

theorem beNat_bytesBE (x : Fp) : beNat (Zp.bytesBE x) = x.val := by
  unfold Zp.bytesBE
  exact C16.beNat_natToBE 32 x.val (Nat.lt_trans x.lt (by decide))

/-- two curve points with the same abscissa have the same or opposite ordinates -/
theorem same_x (x y1 y2 : Fp) (h1 : (⟨x, y1⟩ : Aff Fp).onCurve bandersnatch)
    (h2 : (⟨x, y2⟩ : Aff Fp).onCurve bandersnatch) : y1 = y2 ∨ y1 = -y2 := by
  unfold Aff.onCurve at h1 h2
  simp only at h1 h2
  have hden : 1 - bandersnatch.d * (x * x) ≠ 0 := by
    have := one_sub_d_sq_ne_zero bandersnatch d_ns x
    rwa [pow_two] at this
  have hsq : (y1 - y2) * (y1 + y2) * (1 - bandersnatch.d * (x * x)) = 0 := by
    linear_combination h1 - h2
  rcases mul_eq_zero.mp hsq with h | h
  · rcases mul_eq_zero.mp h with h | h
    · left; exact sub_eq_zero.mp h
    · right; exact eq_neg_of_add_eq_zero_left h
  · exact absurd h hden

theorem subgroupOk_neg (x : Fp) : subgroupOk (-x) = subgroupOk x := by
  unfold subgroupOk
  have : (-x) * (-x) = x * x := by ring
  rw [this]

/-- **Decoding `P.Bytes()` succeeds and gives an element of the same class.**  For every valid
representation `P` (any `Z ≠ 0`, either member of the class) whose `x` passes the subgroup test. -/
theorem decode_bytes (p : Pt) (hp : Valid bandersnatch p) (hsub : subgroupOk p.toAff.x = true) :
    ∃ p', decodeCompressed Fp.sqrtPrecomp p.bytes false = .ok p' ∧ ClassEq p' p := by
  obtain ⟨hz, hcurve⟩ := hp
  have hy0 : p.toAff.y ≠ 0 := y_ne_zero bandersnatch a_ns _ hcurve
  -- the canonical member of the class
  obtain ⟨A, hA⟩ : ∃ A : Aff Fp, A = if Fp.lexLargest p.toAff.y then p.toAff else p.toAff.flip := ⟨_, rfl⟩
  have hAcurve : A.onCurve bandersnatch := by
    rw [hA]; split
    · exact hcurve
    · exact flip_onCurve bandersnatch _ hcurve
  have hAclass : A = p.toAff ∨ A = p.toAff.flip := by
    rw [hA]; split
    · exact Or.inl rfl
    · exact Or.inr rfl
  have hAx : A.x = canonX Fp.lexLargest p.toAff := by
    rw [hA]; unfold canonX; split <;> rfl
  have hAlex : Fp.lexLargest A.y = true := by
    rw [hA]
    by_cases hl : Fp.lexLargest p.toAff.y = true
    · rw [if_pos hl]; exact hl
    · rw [if_neg hl]
      show Fp.lexLargest (-p.toAff.y) = true
      rw [lex_neg _ hy0]; simpa using hl
  have hAsub : subgroupOk A.x = true := by
    rcases hAclass with h | h
    · rw [h]; exact hsub
    · rw [h]; show subgroupOk (-p.toAff.x) = true; rw [subgroupOk_neg]; exact hsub
  have hbytes : p.bytes = Zp.bytesBE A.x := by
    show Proj.encode Fp.lexLargest Zp.bytesBE p = _
    rw [encode_eq, hAx]
  have hlt : beNat p.bytes < P := by rw [hbytes, beNat_bytesBE]; exact A.x.lt
  have hxe : (⟨beNat p.bytes, hlt⟩ : Fp) = A.x := C06.zp_ext _ _ (by show beNat p.bytes = A.x.val; rw [hbytes, beNat_bytesBE])
  -- the decoder accepts
  obtain ⟨p', hdec⟩ := (C06.decode_accepts_iff p.bytes).mpr
    ⟨by rw [hbytes]; exact bytesBE_length _, hlt, by rw [hxe]; exact ⟨A.y, hAcurve⟩, by rw [hxe]; exact hAsub⟩
  refine ⟨p', hdec, ?_⟩
  obtain ⟨hz', hcurve', hlex'⟩ := C06.decode_returns_point p.bytes p' hdec
  obtain ⟨_, _, hxv, _, _, _⟩ := C06.decode_ok_shape Fp.sqrtPrecomp p.bytes p' hdec
  have hpx : p'.X = A.x := C06.zp_ext _ _ (by rw [hxv, hbytes, beNat_bytesBE])
  have hy'0 : p'.Y ≠ 0 := y_ne_zero bandersnatch a_ns ⟨p'.X, p'.Y⟩ hcurve'
  have hy'v : p'.Y.val ≠ 0 := by
    intro h; apply hy'0; exact C06.zp_ext _ 0 (by rw [h]; rfl)
  have hAy0 : A.y ≠ 0 := y_ne_zero bandersnatch a_ns _ hAcurve
  -- same abscissa, both ordinates the larger root: the same point
  have hsame : p'.Y = A.y := by
    rw [hpx] at hcurve'
    rcases same_x A.x p'.Y A.y hcurve' hAcurve with h | h
    · exact h
    · exfalso
      have h1 := hlex' hy'v
      rw [h, lex_neg _ hAy0, hAlex] at h1
      simp at h1
  have htoAff : p'.toAff = A := by
    unfold Proj.toAff
    rw [hz', hpx, hsame]
    have : (1 : Fp)⁻¹ = 1 := inv_one
    rw [this, mul_one, mul_one]
  unfold ClassEq
  rw [htoAff]
  exact hAclass

/-- **`x/y` (what `MapToScalarField` serialises) is a complete invariant of the class**, on the
executable model (C11) -/
theorem mapToBase_iff_class_pt (p q : Pt) (hp : Valid bandersnatch p) (hq : Valid bandersnatch q) :
    p.mapToBase = q.mapToBase ↔ ClassEq p q :=
  map_iff_class bandersnatch a_ns d_ns p q hp hq

end GoIpa.C07
