/-
  C04 — the inner-product argument opens the committed polynomial at any field point.
  Completeness for every field, every module (group) over it, every hash and encoder,
  every vector length `2^k`; the verifier's decision is the protocol's algebraic equation.
-/
import GoIpa.Lemmas.FoldingScalars
import GoIpa.Model.Config
namespace GoIpa.C04
open GoIpa

variable {F G : Type} [Field F] [DecidableEq F] [AddCommGroup G] [Module F G]
variable (enc : Enc F G)

/-- the verifier's accumulation `C + Σ xⱼ • Lⱼ + xⱼ⁻¹ • Rⱼ` -/
def accLR (c0 : G) (xs xinvs : List F) (Ls Rs : List G) : G :=
  (List.zip xs (List.zip xinvs (List.zip Ls Rs))).foldl
    (fun (c : G) (e : F × F × G × G) => c + e.1 • e.2.2.1 + e.2.1 • e.2.2.2) c0

/-- **The folding rounds.**  For vectors of length `2^n`: the verifier regenerates exactly the
prover's challenges and final transcript from `L`, `R`; if no challenge is zero, the prover's
final scalar is the folded `a`, and the verifier's accumulated commitment equals the statement
of the fully folded vectors. -/
theorem rounds_spec (q : G) : ∀ (n : Nat) (tr : Tr) (a b : List F) (g : List G),
    a.length = 2 ^ n → b.length = 2 ^ n → g.length = 2 ^ n →
    (genChallenges enc tr (ipaRounds enc q n tr a b g).1 (ipaRounds enc q n tr a b g).2.1).2
        = (ipaRounds enc q n tr a b g).2.2.2 ∧
    (genChallenges enc tr (ipaRounds enc q n tr a b g).1 (ipaRounds enc q n tr a b g).2.1).1.length = n ∧
    (ipaRounds enc q n tr a b g).1.length = n ∧ (ipaRounds enc q n tr a b g).2.1.length = n ∧
    ((∀ x ∈ (genChallenges enc tr (ipaRounds enc q n tr a b g).1 (ipaRounds enc q n tr a b g).2.1).1, x ≠ 0) →
      let xs := (genChallenges enc tr (ipaRounds enc q n tr a b g).1 (ipaRounds enc q n tr a b g).2.1).1
      (ipaRounds enc q n tr a b g).2.2.1 = foldAllScalars xs a ∧
      accLR (ipaStmt q a b g) xs (xs.map (·⁻¹)) (ipaRounds enc q n tr a b g).1 (ipaRounds enc q n tr a b g).2.1
        = ipaStmt q (foldAllScalars xs a) (foldAllScalars (xs.map (·⁻¹)) b) (foldAllPoints (xs.map (·⁻¹)) g)) := by
  intro n
  induction n with
  | zero =>
    intro tr a b g _ _ _
    simp [ipaRounds, genChallenges, foldAllScalars, foldAllPoints, accLR]
  | succ n ih =>
    intro tr a b g ha hb hg
    have hm : a.length / 2 = 2 ^ n := by rw [ha, pow_succ]; omega
    have hbm : b.length / 2 = 2 ^ n := by rw [hb, pow_succ]; omega
    have hgm : g.length / 2 = 2 ^ n := by rw [hg, pow_succ]; omega
    have ha2 : a.length = 2 * 2 ^ n := by rw [ha, pow_succ]; ring
    have hb2 : b.length = 2 * 2 ^ n := by rw [hb, pow_succ]; ring
    have hg2 : g.length = 2 * 2 ^ n := by rw [hg, pow_succ]; ring
    -- name the pieces of one round
    set m := 2 ^ n with hmdef
    set cL := msm (g.take m) (a.drop m) + innerProd (a.drop m) (b.take m) • q with hcL
    set cR := msm (g.drop m) (a.take m) + innerProd (a.take m) (b.drop m) • q with hcR
    set tr1 := (tr.appendPoint enc cL Label.L).appendPoint enc cR Label.R with htr1
    cases hch : tr1.challenge enc Label.x with
    | mk x tr2 =>
      set a' := foldScalars (a.take m) (a.drop m) x with ha'
      set b' := foldScalars (b.take m) (b.drop m) x⁻¹ with hb'
      set g' := foldPoints (g.take m) (g.drop m) x⁻¹ with hg'
      have la' : a'.length = 2 ^ n := by rw [ha', foldScalars_length]; simp [ha2]; omega
      have lb' : b'.length = 2 ^ n := by rw [hb', foldScalars_length]; simp [hb2]; omega
      have lg' : g'.length = 2 ^ n := by rw [hg', foldPoints_length]; simp [hg2]; omega
      have hr : ipaRounds enc q (n + 1) tr a b g =
          (cL :: (ipaRounds enc q n tr2 a' b' g').1, cR :: (ipaRounds enc q n tr2 a' b' g').2.1,
            (ipaRounds enc q n tr2 a' b' g').2.2.1, (ipaRounds enc q n tr2 a' b' g').2.2.2) := by
        rw [ipaRounds]
        simp only [hm, hbm, hgm]
        rw [← hcL, ← hcR, ← htr1, hch]
      obtain ⟨i1, i2, i3, i4, i5⟩ := ih tr2 a' b' g' la' lb' lg'
      have hgc : genChallenges enc tr (cL :: (ipaRounds enc q n tr2 a' b' g').1) (cR :: (ipaRounds enc q n tr2 a' b' g').2.1)
          = (x :: (genChallenges enc tr2 (ipaRounds enc q n tr2 a' b' g').1 (ipaRounds enc q n tr2 a' b' g').2.1).1,
             (genChallenges enc tr2 (ipaRounds enc q n tr2 a' b' g').1 (ipaRounds enc q n tr2 a' b' g').2.1).2) := by
        rw [genChallenges]
        simp only []
        rw [← htr1, hch]
      rw [hr]
      simp only [hgc]
      refine ⟨i1, by simp [i2], by simp [i3], by simp [i4], ?_⟩
      intro hne
      have hx : x ≠ 0 := hne x (by simp)
      obtain ⟨j1, j2⟩ := i5 (fun y hy => hne y (by simp [hy]))
      refine ⟨?_, ?_⟩
      · rw [j1]; simp only [foldAllScalars, hm]; rfl
      · simp only [List.map_cons, foldAllScalars, foldAllPoints, hm, hbm, hgm]
        rw [← j2]
        unfold accLR
        simp only [List.zip_cons_cons, List.foldl_cons]
        congr 1
        rw [round_identity q a b g m x hx ha2 hb2 hg2]

end GoIpa.C04

namespace GoIpa.C04
open GoIpa

variable {F G : Type} [Field F] [DecidableEq F] [AddCommGroup G] [Module F G]
variable (enc : Enc F G)

/-- the transcript prefix shared by prover and verifier: separator, commitment, point, value, `w` -/
def ipaPrefix (tr : Tr) (commitment : G) (z y : F) : F × Tr :=
  let tr := tr.domainSep Label.ipa
  let tr := tr.appendPoint enc commitment Label.C
  let tr := tr.appendScalar enc z Label.inputPoint
  let tr := tr.appendScalar enc y Label.outputPoint
  tr.challenge enc Label.w

/-- the challenges of an honest run (as the verifier regenerates them) -/
def honestChallenges (cfg : IpaCfg F G) (tr : Tr) (commitment : G) (a : List F) (z : F) : List F :=
  let b := bVector cfg z
  let p := ipaPrefix enc tr commitment z (innerProd a b)
  let r := ipaRounds enc (p.1 • cfg.Q) cfg.rounds p.2 a b cfg.srs
  (genChallenges enc p.2 r.1 r.2.1).1

/-- **Completeness of the inner-product argument.**  For every field `F`, every `F`-module `G`,
every hash/encoder `enc` whose equality test is reflexive, every configuration with `2^k` basis
points and `k` rounds, every vector `a` of that length and every evaluation point `z`: if no
Fiat–Shamir challenge of the run is zero, `CreateIPAProof` returns a proof, `CheckIPAProof`
accepts it for the commitment `Σ aᵢ • Gᵢ` and the value `⟨a, b(z)⟩`, and prover and verifier end
in the same transcript state. -/
theorem ipa_complete (cfg : IpaCfg F G) (tr : Tr) (a : List F) (z : F)
    (hsrs : cfg.srs.length = 2 ^ cfg.rounds) (ha : a.length = 2 ^ cfg.rounds)
    (hb : (bVector cfg z).length = 2 ^ cfg.rounds) (hrefl : ∀ p : G, enc.eqG p p = true)
    (commitment : G) (hC : commitment = msm cfg.srs a)
    (hgood : ∀ x ∈ honestChallenges enc cfg tr commitment a z, x ≠ 0) :
    ∃ proof, (ipaProve enc cfg tr commitment a z).1 = some proof ∧
      ipaVerify enc cfg tr commitment proof z (innerProd a (bVector cfg z))
        = (.ok true, (ipaProve enc cfg tr commitment a z).2) := by
  set b := bVector cfg z with hbdef
  set y := innerProd a b with hy
  cases hp : ipaPrefix enc tr commitment z y with
  | mk w tr1 =>
    set q := w • cfg.Q with hq
    obtain ⟨r1, r2, r3, r4, r5⟩ := rounds_spec enc q cfg.rounds tr1 a b cfg.srs ha hb hsrs
    have hxs : honestChallenges enc cfg tr commitment a z
        = (genChallenges enc tr1 (ipaRounds enc q cfg.rounds tr1 a b cfg.srs).1 (ipaRounds enc q cfg.rounds tr1 a b cfg.srs).2.1).1 := by
      unfold honestChallenges
      simp only [← hbdef, ← hy, hp, ← hq]
    rw [hxs] at hgood
    set R := ipaRounds enc q cfg.rounds tr1 a b cfg.srs with hR
    set xs := (genChallenges enc tr1 R.1 R.2.1).1 with hxsdef
    obtain ⟨s1, s2⟩ := r5 hgood
    obtain ⟨a0, ha0, _⟩ := foldAllScalars_spec xs a (by rw [r2]; exact ha)
    have hprove : ipaProve enc cfg tr commitment a z = (some ⟨R.1, R.2.1, a0⟩, R.2.2.2) := by
      unfold ipaProve
      unfold ipaPrefix at hp
      simp only [← hbdef, ← hy] at hp ⊢
      simp only [hp, ← hq, ← hR]
      rw [s1, ha0]
    refine ⟨⟨R.1, R.2.1, a0⟩, by rw [hprove], ?_⟩
    rw [hprove]
    unfold ipaVerify
    unfold ipaPrefix at hp
    simp only [r3, r4, ← hbdef, ne_eq, not_true_eq_false, ↓reduceIte, hp, ← hq]
    have hgc : genChallenges enc tr1 R.1 R.2.1 = (xs, R.2.2.2) := by
      rw [← r1]
    simp only [hgc]
    congr 2
    -- the algebra
    have hinv : batchInvert xs = xs.map (·⁻¹) := batchInvert_eq_map xs
    rw [hinv]
    have hlen : (xs.map (·⁻¹)).length = cfg.rounds := by simp [r2]
    have hfs : (List.range cfg.srs.length).map (foldingScalar cfg.rounds (xs.map (·⁻¹))) = fsRec (xs.map (·⁻¹)) := by
      rw [hsrs, ← hlen]; exact foldingScalars_eq_fsRec _
    rw [hfs]
    have hacc : accLR (ipaStmt q a b cfg.srs) xs (xs.map (·⁻¹)) R.1 R.2.1
        = ipaStmt q (foldAllScalars xs a) (foldAllScalars (xs.map (·⁻¹)) b) (foldAllPoints (xs.map (·⁻¹)) cfg.srs) := s2
    obtain ⟨sb, hsb, hsbe⟩ := foldAllScalars_spec (xs.map (·⁻¹)) b (by rw [hlen]; exact hb)
    obtain ⟨pg, hpg, hpge⟩ := foldAllPoints_spec (G := G) (xs.map (·⁻¹)) cfg.srs (by rw [hlen]; exact hsrs)
    rw [ha0, hsb, hpg] at hacc
    have hc0 : commitment + y • q = ipaStmt q a b cfg.srs := by
      rw [hC]; rfl
    have : (List.zip xs (List.zip (xs.map (·⁻¹)) (List.zip R.1 R.2.1))).foldl
        (fun (c : G) (e : F × F × G × G) => c + e.1 • e.2.2.1 + e.2.1 • e.2.2.2) (commitment + y • q)
        = ipaStmt q [a0] [sb] [pg] := by
      rw [hc0]; exact hacc
    rw [this]
    have : a0 • msm cfg.srs (fsRec (xs.map (·⁻¹))) + (innerProd b (fsRec (xs.map (·⁻¹))) * a0) • q = ipaStmt q [a0] [sb] [pg] := by
      rw [← hpge, ← hsbe]
      simp [ipaStmt]
      module
    rw [this]
    exact hrefl _

end GoIpa.C04

namespace GoIpa.C04
open GoIpa

section selection
variable {F G : Type} [Field F] [DecidableEq F]

theorem innerProd_replicate_zero (a : List F) (n : Nat) : innerProd a (List.replicate n (0 : F)) = 0 := by
  induction a generalizing n with
  | nil => simp
  | cons x a ih => cases n with
    | zero => simp
    | succ n => simp [List.replicate_succ, ih]

/-- inner product with a unit vector picks the entry -/
theorem innerProd_unit (a : List F) (N i : Nat) (ha : a.length = N) (hi : i < N) :
    innerProd a ((List.range N).map fun j => if j = i then (1 : F) else 0) = a.getD i 0 := by
  subst ha
  induction a generalizing i with
  | nil => simp at hi
  | cons x a ih =>
    rw [List.length_cons, List.range_succ_eq_map]
    simp only [List.map_cons, List.map_map, innerProd_cons]
    cases i with
    | zero =>
      have : innerProd a (List.map ((fun j => if j = 0 then (1 : F) else 0) ∘ Nat.succ) (List.range a.length)) = 0 := by
        have hz : (List.map ((fun j => if j = 0 then (1 : F) else 0) ∘ Nat.succ) (List.range a.length)) = List.replicate a.length 0 := by
          apply List.ext_getElem <;> simp
        rw [hz]
        exact innerProd_replicate_zero a _
      simp [this]
    | succ i =>
      have hi' : i < a.length := by simpa using hi
      have := ih i hi'
      have hm : (List.map ((fun j => if j = i + 1 then (1 : F) else 0) ∘ Nat.succ) (List.range a.length))
          = (List.range a.length).map fun j => if j = i then (1 : F) else 0 := by
        apply List.map_congr_left; intro j _; simp
      rw [hm, this]; simp

/-- **In-domain selection.** When the evaluation point is the domain element `i`, `computeBVector`
is the `i`-th unit vector, so the proved value is the evaluation `a[i]` itself. -/
theorem bVector_inDomain (cfg : IpaCfg F G) (z : F) (i : Nat) (h : cfg.inDomain z = some i) :
    bVector cfg z = (List.range cfg.N).map fun j => if j = i then (1 : F) else 0 := by
  unfold bVector; rw [h]

theorem innerProd_bVector_inDomain (cfg : IpaCfg F G) (z : F) (i : Nat) (h : cfg.inDomain z = some i)
    (a : List F) (ha : a.length = cfg.N) (hi : i < cfg.N) : innerProd a (bVector cfg z) = a.getD i 0 := by
  rw [bVector_inDomain cfg z i h, innerProd_unit a cfg.N i ha hi]

/-- out of the domain the vector is the barycentric coefficient vector (C18 relates it to `p(z)`) -/
theorem bVector_outside (cfg : IpaCfg F G) (z : F) (h : cfg.inDomain z = none) :
    bVector cfg z = cfg.weights.baryCoeffs cfg.N z := by
  unfold bVector; rw [h]

end selection

/-- **The switch between in-domain and out-of-domain handling happens exactly between 255 and
256**, for the concrete scalar field. -/
theorem frInDomain_iff (z : Fr) (i : Nat) : frInDomain 256 z = some i ↔ (Zp.val z = i ∧ i ≤ 255) := by
  unfold frInDomain
  constructor
  · intro h
    split at h
    · cases h; exact ⟨rfl, by omega⟩
    · cases h
  · rintro ⟨rfl, hle⟩
    simp [hle]

theorem frInDomain_none_iff (z : Fr) : frInDomain 256 z = none ↔ 256 ≤ Zp.val z := by
  unfold frInDomain
  constructor
  · intro h
    split at h
    · cases h
    · omega
  · intro h
    have : ¬ Zp.val z ≤ 256 - 1 := by omega
    simp [this]

example : frInDomain 256 (Zp.ofNat R 255) = some 255 := by decide
example : frInDomain 256 (Zp.ofNat R 256) = none := by decide

end GoIpa.C04
