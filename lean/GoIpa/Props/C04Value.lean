/-
  C04 — the value the inner-product argument proves is `p(z)`: for every point `z` of the field,
  in the domain or outside, `⟨f, computeBVector(z)⟩` is the value at `z` of the unique polynomial
  of degree `< N` through the evaluations `f`; completeness of the argument for that value.
-/
import GoIpa.Lemmas.MpAlgebra
import GoIpa.Props.C04
import GoIpa.Props.Concrete
namespace GoIpa.C04
open GoIpa GoIpa.Mp

variable {F G : Type} [Field F] [DecidableEq F] [AddCommGroup G] [Module F G]

/-- the interpolating polynomial of an evaluation-form vector -/
noncomputable def interp (N : ℕ) (f : List F) : Polynomial F :=
  Lagrange.interpolate (Finset.range N) (C18.dom (F := F)) (fun i => f.getD i 0)

/-- **`⟨f, b(z)⟩ = p(z)` for every `z`** — the unit vector inside the domain, the barycentric
coefficients outside, the switch at `N − 1 | N`. -/
theorem innerProd_bVector_eq_eval (cfg : IpaCfg F G) (hc : CfgOk cfg) (f : List F) (hf : f.length = cfg.N) (z : F) :
    innerProd f (bVector cfg z) = (interp cfg.N f).eval z := by
  unfold interp
  cases hd : cfg.inDomain z with
  | some i =>
    obtain ⟨hi, hz⟩ := hc.dom_some z i hd
    rw [innerProd_bVector_inDomain cfg z i hd f hf hi, hz]
    exact (Lagrange.eval_interpolate_at_node (fun i => f.getD i 0) hc.inj (Finset.mem_range.mpr hi)).symm
  | none =>
    have hout := hc.dom_none z hd
    rw [bVector_outside cfg z hd, hc.weights]
    exact C18.bary_eval cfg.N f hf z (fun i hi => hout i (Finset.mem_range.mp hi))

variable (enc : Enc F G)

/-- **The argument opens the committed polynomial at any field point.**  For every evaluation-form
polynomial `f`, its commitment and every `z`: the proof returned by `CreateIPAProof` is accepted
by `CheckIPAProof` for `result = p(z)` (no folding challenge being zero). -/
theorem ipa_opens_polynomial (cfg : IpaCfg F G) (hc : CfgOk cfg) (hrefl : ∀ p : G, enc.eqG p p = true)
    (tr : Tr) (f : List F) (hf : f.length = cfg.N) (z : F)
    (hgood : ∀ x ∈ honestChallenges enc cfg tr (msm cfg.srs f) f z, x ≠ 0) :
    ∃ proof, (ipaProve enc cfg tr (msm cfg.srs f) f z).1 = some proof ∧
      ipaVerify enc cfg tr (msm cfg.srs f) proof z ((interp cfg.N f).eval z)
        = (.ok true, (ipaProve enc cfg tr (msm cfg.srs f) f z).2) := by
  rw [← innerProd_bVector_eq_eval cfg hc f hf z]
  exact ipa_complete enc cfg tr f z (by rw [hc.srs_len, hc.pow]) (by rw [hf, hc.pow])
    (by rw [bVector_length cfg hc, hc.pow]) hrefl _ rfl hgood

/-- at the executable scalar field and the real configuration shape -/
theorem ipa_opens_polynomial_real {G : Type} [AddCommGroup G] [Module Fr G] (enc : Enc Fr G)
    (hrefl : ∀ p : G, enc.eqG p p = true) (srs : List G) (hsrs : srs.length = 256) (Q : G) (tr : Tr)
    (f : List Fr) (hf : f.length = 256) (z : Fr)
    (hgood : ∀ x ∈ honestChallenges enc (Concrete.realCfg srs Q) tr (msm srs f) f z, x ≠ 0) :
    ∃ proof, (ipaProve enc (Concrete.realCfg srs Q) tr (msm srs f) f z).1 = some proof ∧
      ipaVerify enc (Concrete.realCfg srs Q) tr (msm srs f) proof z ((interp 256 f).eval z)
        = (.ok true, (ipaProve enc (Concrete.realCfg srs Q) tr (msm srs f) f z).2) :=
  ipa_opens_polynomial enc (Concrete.realCfg srs Q) (Concrete.realCfg_ok srs hsrs Q) hrefl tr f hf z hgood

end GoIpa.C04
