/-
  C16 — scalar encodings round-trip, reduce or reject exactly, and leave the input intact.
  The decoders of the model are pure functions of the byte string, so "the input is not
  modified" and "decoding the same buffer twice gives the same scalar" hold by construction;
  the implementation is tied to them by the correspondence run, which compares the caller's
  buffer before/after and decodes twice.
-/
import GoIpa.Model.Codec
namespace GoIpa.C16
open GoIpa

theorem leNat_lt (b : Bytes) : leNat b < 256 ^ b.length := by
  induction b with
  | nil => simp [leNat]
  | cons x xs ih =>
    have hx : x.toNat < 256 := UInt8.toNat_lt x
    simp only [leNat, List.length_cons, Nat.pow_succ]
    omega

theorem natToLE_length (len n : Nat) : (natToLE len n).length = len := by
  induction len generalizing n with
  | zero => simp [natToLE]
  | succ k ih => simp [natToLE, ih]

/-- decoding the `len`-byte little-endian encoding of `n` gives `n` back (when it fits) -/
theorem leNat_natToLE (len n : Nat) (h : n < 256 ^ len) : leNat (natToLE len n) = n := by
  induction len generalizing n with
  | zero => simp at h; simp [natToLE, leNat, h]
  | succ k ih =>
    have h' : n / 256 < 256 ^ k := by
      rw [Nat.pow_succ] at h
      exact Nat.div_lt_of_lt_mul (by omega)
    simp only [natToLE, leNat, ih (n / 256) h']
    have : (UInt8.ofNat (n % 256)).toNat = n % 256 := by
      simp [UInt8.toNat_ofNat]
    rw [this]
    omega

theorem beNat_natToBE (len n : Nat) (h : n < 256 ^ len) : beNat (natToBE len n) = n := by
  simp [beNat, natToBE, leNat_natToLE len n h]

/-- encoding is injective on the decoded value: the only `len`-byte string that decodes to `n` -/
theorem natToLE_leNat (b : Bytes) : natToLE b.length (leNat b) = b := by
  induction b with
  | nil => simp [natToLE]
  | cons x xs ih =>
    have hx : x.toNat < 256 := UInt8.toNat_lt x
    simp only [List.length_cons, natToLE, leNat]
    have h1 : (x.toNat + 256 * leNat xs) % 256 = x.toNat := by omega
    have h2 : (x.toNat + 256 * leNat xs) / 256 = leNat xs := by omega
    rw [h1, h2, ih]
    simp

private theorem R_lt : R < 256 ^ 32 := by decide

/-- **Round trip (little-endian).** For every scalar `s`, decoding `BytesLE(s)` with the
reducing decoder gives `s` back. -/
theorem setBytesLE_bytesLE (s : Fr) : Fr.setBytesLE s.bytesLE = s := by
  have hs : s.val < 256 ^ 32 := Nat.lt_trans s.lt R_lt
  unfold Fr.setBytesLE Zp.bytesLE Zp.ofNat
  cases s with
  | mk v lt =>
    simp only [leNat_natToLE 32 v hs]
    congr
    exact Nat.mod_eq_of_lt lt

/-- **Round trip (big-endian).** -/
theorem setBytes_bytes (s : Fr) : Fr.setBytes s.bytesBE = s := by
  have hs : s.val < 256 ^ 32 := Nat.lt_trans s.lt R_lt
  unfold Fr.setBytes Zp.bytesBE Zp.ofNat
  cases s with
  | mk v lt =>
    simp only [beNat_natToBE 32 v hs]
    congr
    exact Nat.mod_eq_of_lt lt

/-- **Round trip through the canonical decoder** (the one used for proof scalars). -/
theorem setBytesLECanonical_bytesLE (s : Fr) : Fr.setBytesLECanonical s.bytesLE = some s := by
  have hs : s.val < 256 ^ 32 := Nat.lt_trans s.lt R_lt
  unfold Fr.setBytesLECanonical Zp.bytesLE
  cases s with
  | mk v lt =>
    simp only [leNat_natToLE 32 v hs, lt, ↓reduceDIte]

/-- **The reducing decoders map any byte string, of any length, to its integer value mod r.** -/
theorem setBytes_reduces (b : Bytes) : (Fr.setBytes b).val = beNat b % R := rfl
theorem setBytesLE_reduces (b : Bytes) : (Fr.setBytesLE b).val = leNat b % R := rfl

/-- **The canonical decoder accepts a string exactly when its integer value is `< r`**, and then
returns that value. -/
theorem canonical_accepts_iff (b : Bytes) : (Fr.setBytesLECanonical b).isSome ↔ leNat b < R := by
  unfold Fr.setBytesLECanonical
  split <;> simp_all

theorem canonical_value (b : Bytes) (s : Fr) (h : Fr.setBytesLECanonical b = some s) : s.val = leNat b := by
  unfold Fr.setBytesLECanonical at h
  split at h
  · cases h; rfl
  · cases h

/-- no second 32-byte encoding is accepted for the same scalar -/
theorem canonical_injective (b b' : Bytes) (hl : b.length = 32) (hl' : b'.length = 32) (s : Fr)
    (h : Fr.setBytesLECanonical b = some s) (h' : Fr.setBytesLECanonical b' = some s) : b = b' := by
  have e := canonical_value b s h
  have e' := canonical_value b' s h'
  have : natToLE b.length (leNat b) = natToLE b'.length (leNat b') := by rw [hl, hl', ← e, ← e']
  rwa [natToLE_leNat, natToLE_leNat] at this

/-! non-vacuity / concrete instances -/
example : (Fr.setBytesLECanonical (natToLE 32 (R - 1))).isSome = true := by decide
example : (Fr.setBytesLECanonical (natToLE 32 R)).isSome = false := by decide
example : (Fr.setBytesLE (natToLE 32 (R + 5))).val = 5 := by decide

end GoIpa.C16
