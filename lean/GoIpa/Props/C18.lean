/-
  C18 — barycentric evaluation and the precomputed tables are exact, over every field in
  which the domain points 0,…,N−1 are distinct.
-/
import Mathlib.LinearAlgebra.Lagrange
import Mathlib.Tactic.Ring
import Mathlib.Tactic.FieldSimp
import Mathlib.Tactic.Linarith
import GoIpa.Lemmas.Vec
import GoIpa.Lemmas.BatchInvert
namespace GoIpa.C18
open GoIpa Finset Polynomial

variable {F : Type} [Field F] [DecidableEq F]

/-- the domain map `i ↦ (i : F)` -/
def dom : ℕ → F := fun i => (i : F)

theorem prodF_eq (l : List F) : prodF l = l.prod := by
  unfold prodF
  have : ∀ (z : F), l.foldl (· * ·) z = z * l.prod := by
    induction l with
    | nil => intro z; simp
    | cons x xs ih => intro z; simp [ih, mul_assoc]
  rw [this]; simp

/-- **Weights.** `computeBarycentricWeightForElement(i) = ∏_{j≠i} (i − j)`, the inverse of
Mathlib's nodal weight. -/
theorem baryWeight_eq (N i : ℕ) :
    (baryWeight N i : F) = ∏ j ∈ (range N).erase i, ((i : F) - (j : F)) := by
  unfold baryWeight
  rw [prodF_eq]
  have hnd : ((List.range N).filter (fun j => decide (j ≠ i))).Nodup := List.Nodup.filter _ List.nodup_range
  rw [← List.prod_toFinset _ hnd]
  congr 1
  ext j
  simp [and_comm]

theorem baryWeight_eq_nodalWeight_inv (N i : ℕ) :
    (baryWeight N i : F) = (Lagrange.nodalWeight (range N) (dom (F := F)) i)⁻¹ := by
  rw [baryWeight_eq, Lagrange.nodalWeight, prod_inv_distrib, inv_inv]
  rfl

/-- **Table entries** (first half: weights, second half: their inverses) -/
theorem baryTable_lo (N i : ℕ) (hi : i < N) : (baryWeightsTable N : List F).getD i 0 = baryWeight N i := by
  unfold baryWeightsTable
  rw [List.getD_eq_getElem?_getD, List.getElem?_append_left (by simpa using hi)]
  simp [hi]

theorem baryTable_hi (N i : ℕ) (hi : i < N) :
    (baryWeightsTable N : List F).getD (i + N) 0 = (baryWeight N i : F)⁻¹ := by
  unfold baryWeightsTable
  rw [List.getD_eq_getElem?_getD, List.getElem?_append_right (by simp)]
  simp [hi]

theorem baryTable_length (N : ℕ) : (baryWeightsTable N : List F).length = 2 * N := by
  simp [baryWeightsTable]; ring

theorem invDomTable_length (N : ℕ) : (invertedDomainTable N : List F).length = 2 * (N - 1) := by
  simp [invertedDomainTable]; ring

theorem invDomTable_lo (N k : ℕ) (hk : 1 ≤ k) (hkN : k < N) :
    (invertedDomainTable N : List F).getD (k - 1) 0 = ((k : ℕ) : F)⁻¹ := by
  obtain ⟨k', rfl⟩ : ∃ k', k = k' + 1 := ⟨k - 1, by omega⟩
  unfold invertedDomainTable
  have hlt : k' < N - 1 := by omega
  rw [Nat.add_sub_cancel, List.getD_eq_getElem?_getD, List.getElem?_append_left (by simpa using hlt)]
  simp [hlt]

theorem invDomTable_hi (N k : ℕ) (hk : 1 ≤ k) (hkN : k < N) :
    (invertedDomainTable N : List F).getD (k - 1 + (N - 1)) 0 = -((k : ℕ) : F)⁻¹ := by
  obtain ⟨k', rfl⟩ : ∃ k', k = k' + 1 := ⟨k - 1, by omega⟩
  unfold invertedDomainTable
  have hlt : k' < N - 1 := by omega
  rw [Nat.add_sub_cancel, List.getD_eq_getElem?_getD, List.getElem?_append_right (by simp)]
  simp [hlt]

/-- **Index helpers.** For two different domain indices the `absInt` / midpoint-offset lookup
returns exactly `(i − k)⁻¹`, for every index distance and either sign. -/
theorem invertedElement_spec (N i k : ℕ) (hi : i < N) (hk : k < N) (hne : i ≠ k) :
    (Weights.new N : Weights F).invertedElement (absInt ((i : ℤ) - (k : ℤ))).1 (absInt ((i : ℤ) - (k : ℤ))).2
      = ((i : F) - (k : F))⁻¹ := by
  unfold Weights.invertedElement Weights.new absInt
  simp only [invDomTable_length]
  have hmid : 2 * (N - 1) / 2 = N - 1 := by omega
  rw [hmid]
  rcases Nat.lt_or_gt_of_ne hne with hlt | hgt
  · -- i < k : negative
    have hneg : ((i : ℤ) - (k : ℤ)) < 0 := by omega
    simp only [hneg, ↓reduceIte]
    have habs : (-((i : ℤ) - (k : ℤ))).toNat = k - i := by omega
    rw [habs, invDomTable_hi N (k - i) (by omega) (by omega)]
    rw [Nat.cast_sub (le_of_lt hlt), ← neg_sub (k : F) (i : F), inv_neg]
  · have hpos : ¬((i : ℤ) - (k : ℤ)) < 0 := by omega
    simp only [hpos, ↓reduceIte, Bool.false_eq_true]
    have habs : ((i : ℤ) - (k : ℤ)).toNat = i - k := by omega
    rw [habs, invDomTable_lo N (i - k) (by omega) (by omega)]
    rw [Nat.cast_sub (le_of_lt hgt)]

/-- `getRatioOfWeights(k, i) = A'(k) / A'(i)` -/
theorem ratio_spec (N i k : ℕ) (hi : i < N) (hk : k < N) :
    (Weights.new N : Weights F).ratio k i = baryWeight N k * (baryWeight N i : F)⁻¹ := by
  unfold Weights.ratio Weights.new
  simp only [baryTable_length]
  have hmid : 2 * N / 2 = N := by omega
  rw [hmid, baryTable_lo N k hk, baryTable_hi N i hi]

/-- inner product against a mapped range as a `Finset` sum -/
theorem innerProd_range (f : List F) (N : ℕ) (hf : f.length = N) (g : ℕ → F) :
    innerProd f ((List.range N).map g) = ∑ i ∈ range N, f.getD i 0 * g i := by
  induction N generalizing f g with
  | zero => simp
  | succ N ih =>
    cases f with
    | nil => simp at hf
    | cons x f =>
      rw [List.range_succ_eq_map, List.map_cons, List.map_map, innerProd_cons, Finset.sum_range_succ']
      rw [ih f (by simpa using hf) (g ∘ Nat.succ)]
      simp [add_comm]

/-- **Barycentric evaluation.** For every evaluation-form polynomial `f` of length `N` and every
point `z` outside the domain, `⟨f, ComputeBarycentricCoefficients(z)⟩` is the value at `z` of
the unique interpolating polynomial of degree `< N`. -/
theorem bary_eval (N : ℕ) (f : List F) (hf : f.length = N) (z : F) (hz : ∀ i ∈ range N, z ≠ dom i) :
    innerProd f ((Weights.new N : Weights F).baryCoeffs N z)
      = (Lagrange.interpolate (range N) (dom (F := F)) (fun i => f.getD i 0)).eval z := by
  rw [Lagrange.eval_interpolate_not_at_node _ hz]
  unfold Weights.baryCoeffs
  dsimp only
  rw [batchInvert_eq_map, List.map_map, List.map_map]
  rw [innerProd_range f N hf]
  rw [Lagrange.eval_nodal (s := range N) (v := dom (F := F)), Finset.mul_sum]
  apply Finset.sum_congr rfl
  intro i hi
  have hiN : i < N := Finset.mem_range.mp hi
  simp only [Function.comp, Weights.new]
  rw [baryTable_lo N i hiN, baryWeight_eq_nodalWeight_inv, prodF_eq]
  have hprod : ((List.range N).map fun (i : ℕ) => z - (i : F)).prod = ∏ i ∈ range N, (z - dom i) := by
    rw [← List.prod_toFinset _ List.nodup_range]
    simp only [dom]
    congr 1
    ext j; simp
  rw [hprod]
  have hzi : z - (i : F) ≠ 0 := sub_ne_zero_of_ne (hz i hi)
  simp only [dom] at hzi ⊢
  rw [mul_inv, inv_inv]
  ring

/-- **In-domain division, off the diagonal.** For `i ≠ k` the `i`-th entry of
`DivideOnDomain(k, f)` is `(f_i − f_k)/(i − k)` — the value at `i` of the quotient
`(p(X) − p(k))/(X − k)` — for every index distance and sign. -/
theorem divide_offdiag (N k i : ℕ) (hk : k < N) (hi : i < N) (hne : i ≠ k) (f : List F) :
    ((Weights.new N : Weights F).divideOnDomain N k f).getD i 0
      = (f.getD i 0 - f.getD k 0) * ((i : F) - (k : F))⁻¹ := by
  unfold Weights.divideOnDomain
  dsimp only
  rw [List.getD_eq_getElem?_getD, List.getElem?_map, List.getElem?_range hi]
  simp only [Option.map_some, Option.getD_some, hne, ↓reduceIte]
  rw [List.getD_eq_getElem?_getD, List.getElem?_map, List.getElem?_range hi]
  simp only [Option.map_some, Option.getD_some, hne, ↓reduceIte]
  rw [invertedElement_spec N i k hi hk hne]

/-- the defining relation of the quotient, off the diagonal -/
theorem divide_offdiag_relation (N k i : ℕ) (hk : k < N) (hi : i < N) (hne : i ≠ k) (f : List F)
    (hinj : (i : F) ≠ (k : F)) :
    ((Weights.new N : Weights F).divideOnDomain N k f).getD i 0 * ((i : F) - (k : F)) = f.getD i 0 - f.getD k 0 := by
  rw [divide_offdiag N k i hk hi hne]
  have : (i : F) - (k : F) ≠ 0 := sub_ne_zero_of_ne hinj
  field_simp

end GoIpa.C18
