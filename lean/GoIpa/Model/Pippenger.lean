/-
  Variable-base MSM (`bandersnatch/multiexp.go`): signed-digit partitioning
  with word selectors, bucket accumulation, running-sum reduction, Horner
  combination, first-chunk split and recursive point-range split.
  Generic in the group.  Core Lean only.
-/
import GoIpa.Model.Precomp
namespace GoIpa

/-- `selector` -/
structure Selector where
  index : Nat
  mask : Nat
  shift : Nat
  multiWord : Bool
  maskHigh : Nat
  shiftHigh : Nat
deriving Repr, DecidableEq

def mask64 : Nat := 2^64 - 1

/-- the selector for chunk `k` of width `c` (4 limbs) -/
def mkSelector (c k : Nat) : Selector :=
  let jc := k * c
  let index := jc / 64
  let shift := jc - index * 64
  let mask := (((1 <<< c) - 1) <<< shift) &&& mask64
  let multi := (64 % c ≠ 0) && decide (shift > 64 - c) && decide (index < 3)
  if multi then
    let nbHigh := shift - (64 - c)
    ⟨index, mask, shift, true, (1 <<< nbHigh) - 1, c - nbHigh⟩
  else ⟨index, mask, shift, false, 0, 0⟩

/-- number of chunks: `⌈256 / c⌉` -/
def nbChunks (c : Nat) : Nat := if 256 % c ≠ 0 then 256 / c + 1 else 256 / c

/-- raw (unsigned) window of chunk `k`, as the selector reads it -/
def selectBits (c : Nat) (limbs : List Nat) (k : Nat) : Nat :=
  let s := mkSelector c k
  let lo := (limbs.getD s.index 0 &&& s.mask) >>> s.shift
  if s.multiWord then lo + ((limbs.getD (s.index + 1) 0 &&& s.maskHigh) <<< s.shiftHigh) else lo

/-- one chunk of `partitionScalars`: state = (output limbs, carry) -/
def partitionStep (c : Nat) (limbs : List Nat) (st : List Nat × Int) (k : Nat) : List Nat × Int :=
  let s := mkSelector c k
  let digit : Int := st.2 + (selectBits c limbs k : Int)
  if digit = 0 then (st.1, 0)
  else
    let (digit, carry) := if digit ≥ (1 <<< (c - 1) : Nat) then (digit - ((1 <<< c : Nat) : Int), (1 : Int)) else (digit, 0)
    let bits : Nat := if digit ≥ 0 then digit.toNat else (((-digit - 1).toNat) ||| (1 <<< (c - 1)))
    let out := st.1.set s.index ((st.1.getD s.index 0 ||| (bits <<< s.shift)) &&& mask64)
    let out := if s.multiWord then out.set (s.index + 1) (out.getD (s.index + 1) 0 ||| (bits >>> s.shiftHigh)) else out
    (out, carry)

def limbsOf (s : Nat) : List Nat := [limb s 0, limb s 1, limb s 2, limb s 3]

/-- `partitionScalars` for one scalar (regular form): the re-encoded limbs -/
def partitionScalar (c : Nat) (s : Nat) : List Nat :=
  if s = 0 then [0, 0, 0, 0]
  else ((List.range (nbChunks c)).foldl (partitionStep c (limbsOf s)) ([0, 0, 0, 0], 0)).1

/-- decode the stored bits of one chunk into a signed digit -/
def decodeDigit (c : Nat) (bits : Nat) : Int :=
  if bits = 0 then 0
  else if bits &&& (1 <<< (c - 1)) = 0 then (bits : Int)
  else -(((bits &&& ((1 <<< (c - 1)) - 1)) : Nat) : Int) - 1

section
variable {G : Type} [Zero G] [Add G] [Neg G]

def doubleN (dbl : G → G) : Nat → G → G
  | 0, p => p
  | n + 1, p => doubleN dbl n (dbl p)

/-- `msmProcessChunk`: bucket accumulation then running-sum reduction; `nb` buckets -/
def processChunk (c nb : Nat) (k : Nat) (points : List G) (parts : List (List Nat)) : G :=
  let buckets : List G := (List.zip points parts).foldl (fun (b : List G) (e : G × List Nat) =>
      let bits := selectBits c e.2 k
      if bits = 0 then b
      else if bits &&& (1 <<< (c - 1)) = 0 then b.set (bits - 1) (e.1 + b.getD (bits - 1) 0)
      else
        let i := bits &&& ((1 <<< (c - 1)) - 1)   -- bits &^ msbWindow
        b.set i (b.getD i 0 + -e.1)) (List.replicate nb 0)
  let (_, total) := buckets.foldr (fun (bk : G) (st : G × G) =>
      let run := st.1 + bk
      (run, st.2 + run)) ((0 : G), (0 : G))
  total

/-- `msmReduceChunk`: Horner with `c` doublings between chunks, from the top chunk down -/
def reduceChunks (dbl : G → G) (c : Nat) (chunks : List G) : G :=
  match chunks.reverse with
  | [] => 0
  | top :: rest => rest.foldl (fun acc t => doubleN dbl c acc + t) top

/-- `msmCk`: every chunk over all points; the top chunk of a non-dividing `c` uses the
smaller bucket array; chunk 0 optionally split in two halves -/
def msmInner (dbl : G → G) (c : Nat) (points : List G) (parts : List (List Nat)) (split : Bool) : G :=
  let n := nbChunks c
  let lastC := 256 - c * (256 / c)
  let chunk (k : Nat) (ps : List G) (qs : List (List Nat)) : G :=
    processChunk c (if 256 % c ≠ 0 ∧ k = n - 1 then 1 <<< (lastC - 1) else 1 <<< (c - 1)) k ps qs
  let first :=
    if split then
      let h := points.length / 2
      chunk 0 (points.take h) (parts.take h) + chunk 0 (points.drop h) (parts.drop h)
    else chunk 0 points parts
  reduceChunks dbl c (first :: (List.range (n - 1)).map fun k => chunk (k + 1) points parts)

/-- `MultiExp` after the choice of `(c, nbSplits)`: `nbSplits - 1` blocks of `per`
points, the remainder in the last block, partial results added in `order` -/
def multiExpSplit (dbl : G → G) (c nbSplits per : Nat) (points : List G) (scalars : List Nat)
    (split : Bool) (order : List Nat) : G :=
  let parts := scalars.map (partitionScalar c)
  let block (i : Nat) : G :=
    msmInner dbl c ((points.drop (i * per)).take per) ((parts.drop (i * per)).take per) split
  let last := msmInner dbl c (points.drop ((nbSplits - 1) * per)) (parts.drop ((nbSplits - 1) * per)) split
  order.foldl (fun acc i => acc + block i) last

/-- the `(C, nbSplits, nbPoints)` loop of `MultiExp` for an arbitrary cost model `bestC` -/
def chooseSplit (bestC : Nat → Nat) (nbTasks : Nat) : Nat → Nat → Nat → Nat × Nat × Nat
  | 0, nbPoints, nbSplits => (bestC nbPoints, nbSplits, nbPoints)
  | fuel + 1, nbPoints, nbSplits =>
    let c := bestC nbPoints
    if nbChunks c * nbSplits < nbTasks then chooseSplit bestC nbTasks fuel (nbPoints / 2) (nbSplits * 2)
    else (c, nbSplits, nbPoints)

end
end GoIpa
