/-
  Scalar-field byte codecs (`fr.Element.SetBytes`, `SetBytesLE`,
  `SetBytesLECanonical`, `Bytes`, `BytesLE`) — pure functions of the byte string.
  Core Lean only.
-/
import GoIpa.Model.Field
namespace GoIpa

/-- `SetBytes`: big-endian, any length, reduced modulo `r` -/
def Fr.setBytes (b : Bytes) : Fr := Zp.ofNat R (beNat b)
/-- `SetBytesLE`: little-endian, any length, reduced modulo `r` -/
def Fr.setBytesLE (b : Bytes) : Fr := Zp.ofNat R (leNat b)
/-- `SetBytesLECanonical`: accepted exactly when the integer value is `< r` -/
def Fr.setBytesLECanonical (b : Bytes) : Option Fr :=
  if h : leNat b < R then some ⟨leNat b, h⟩ else none

/-- base field, `SetBytes` (reducing) and `SetBytesCanonical` (32 bytes, `< p`) -/
def Fp.setBytes (b : Bytes) : Fp := Zp.ofNat P (beNat b)
def Fp.setBytesCanonical (b : Bytes) : Option Fp :=
  if b.length ≠ 32 then none else if h : beNat b < P then some ⟨beNat b, h⟩ else none

end GoIpa
