/-
  Byte / hex / integer codecs shared by the whole model.  Core Lean only.
-/
namespace GoIpa

abbrev Bytes := List UInt8

/-- little-endian bytes → natural number -/
def leNat : Bytes → Nat
  | [] => 0
  | b :: bs => b.toNat + 256 * leNat bs

/-- big-endian bytes → natural number -/
def beNat (bs : Bytes) : Nat := leNat bs.reverse

/-- `n` as exactly `len` little-endian bytes (truncating) -/
def natToLE : Nat → Nat → Bytes
  | 0, _ => []
  | len + 1, n => UInt8.ofNat (n % 256) :: natToLE len (n / 256)

/-- `n` as exactly `len` big-endian bytes (truncating) -/
def natToBE (len n : Nat) : Bytes := (natToLE len n).reverse

def hexDigit (n : Nat) : Char :=
  if n < 10 then Char.ofNat (48 + n) else Char.ofNat (87 + n)

def hexOfBytes (bs : Bytes) : String :=
  String.ofList (bs.foldr (fun b acc => hexDigit (b.toNat / 16) :: hexDigit (b.toNat % 16) :: acc) [])

def hexVal (c : Char) : Option Nat :=
  if '0' ≤ c ∧ c ≤ '9' then some (c.toNat - 48)
  else if 'a' ≤ c ∧ c ≤ 'f' then some (c.toNat - 87)
  else if 'A' ≤ c ∧ c ≤ 'F' then some (c.toNat - 55)
  else none

def bytesOfHexAux : List Char → Option Bytes
  | [] => some []
  | [_] => none
  | a :: b :: rest => do
    let x ← hexVal a
    let y ← hexVal b
    let r ← bytesOfHexAux rest
    pure (UInt8.ofNat (16 * x + y) :: r)

/-- `-` denotes the empty string on the wire -/
def bytesOfHex (s : String) : Option Bytes :=
  if s = "-" then some [] else bytesOfHexAux s.toList

def hexOrDash (bs : Bytes) : String := if bs.isEmpty then "-" else hexOfBytes bs

/-- splitmix64, the PRNG shared by harness and driver for bulk data -/
def splitmix (s : UInt64) : UInt64 × UInt64 :=
  let s := s + 0x9E3779B97F4A7C15
  let z := s
  let z := (z ^^^ (z >>> 30)) * 0xBF58476D1CE4E5B9
  let z := (z ^^^ (z >>> 27)) * 0x94D049BB133111EB
  let z := z ^^^ (z >>> 31)
  (z, s)

/-- 256 pseudo-random bits from the stream -/
def splitmix256 (s : UInt64) : Nat × UInt64 :=
  let (a, s) := splitmix s
  let (b, s) := splitmix s
  let (c, s) := splitmix s
  let (d, s) := splitmix s
  (a.toNat + 2^64 * b.toNat + 2^128 * c.toNat + 2^192 * d.toNat, s)

end GoIpa
