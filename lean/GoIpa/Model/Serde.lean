/-
  Proof (de)serialisation against scripted readers and writers.
  `Reader` is a well-behaved `io.Reader` over a byte stream whose chunking is
  arbitrary (script of chunk sizes, EOF reported together with the last data or
  separately, an optional I/O failure).  `io.ReadAtLeast`/`io.ReadFull` are
  modelled literally.  Core Lean only.
-/
import GoIpa.Model.Config
import GoIpa.Model.Codec
namespace GoIpa

inductive IoErr | eof | unexpectedEOF | other
deriving DecidableEq, Repr

structure Reader where
  data : Bytes                -- bytes not yet delivered
  chunks : List Nat           -- upper bounds for the next reads (0 is treated as 1); then unlimited
  eofWithData : Bool          -- report EOF together with the final bytes (iotest.DataErrReader)
  failAfter : Option Nat      -- every read fails once this many bytes have been delivered
  delivered : Nat
deriving Repr

def Reader.ofBytes (b : Bytes) : Reader := ⟨b, [], false, none, 0⟩

/-- one `Read(p)` call with `len(p) = want` -/
def Reader.read (r : Reader) (want : Nat) : Bytes × Option IoErr × Reader :=
  match r.failAfter with
  | some k => if r.delivered ≥ k then ([], some .other, r) else go
  | none => go
where go :=
  if r.data.isEmpty then ([], some .eof, r)
  else
    let lim := match r.chunks with | [] => want | c :: _ => min want (max c 1)
    let out := r.data.take lim
    let rest := r.data.drop lim
    let r' := { r with data := rest, chunks := r.chunks.drop 1, delivered := r.delivered + out.length }
    (out, if rest.isEmpty && r.eofWithData then some .eof else none, r')

/-- `io.ReadAtLeast(r, buf, min)` with `len(buf) = min = want` (so also `io.ReadFull`) -/
def readFull : Nat → Reader → Nat → Bytes → Except IoErr Bytes × Reader
  | 0, r, _, acc => (.ok acc, r)   -- unreachable: fuel ≥ want+1
  | fuel + 1, r, want, acc =>
    if acc.length ≥ want then (.ok acc, r)
    else
      let (out, err, r') := r.read (want - acc.length)
      let acc' := acc ++ out
      match err with
      | none => readFull fuel r' want acc'
      | some e =>
        if acc'.length ≥ want then (.ok acc', r')
        else if acc'.length > 0 ∧ e = .eof then (.error .unexpectedEOF, r')
        else (.error e, r')

def Reader.full (r : Reader) (want : Nat) : Except IoErr Bytes × Reader := readFull (want + 1) r want []

inductive RdErr | io (e : IoErr) | point (e : DecErr) | scalar | trailing
deriving DecidableEq, Repr

/-- `common.ReadPoint` -/
def readPoint (sqrt : Fp → Option Fp) (r : Reader) : Except RdErr Pt × Reader :=
  match r.full 32 with
  | (.error e, r) => (.error (.io e), r)
  | (.ok b, r) => match decodeCompressed sqrt b with
    | .ok p => (.ok p, r)
    | .error e => (.error (.point e), r)

/-- `common.ReadScalar` -/
def readScalar (r : Reader) : Except RdErr Fr × Reader :=
  match r.full 32 with
  | (.error e, r) => (.error (.io e), r)
  | (.ok b, r) => match Fr.setBytesLECanonical b with
    | some s => (.ok s, r)
    | none => (.error .scalar, r)

def readPoints (sqrt : Fp → Option Fp) : Nat → Reader → Except RdErr (List Pt) × Reader
  | 0, r => (.ok [], r)
  | n + 1, r => match readPoint sqrt r with
    | (.error e, r) => (.error e, r)
    | (.ok p, r) => match readPoints sqrt n r with
      | (.error e, r) => (.error e, r)
      | (.ok ps, r) => (.ok (p :: ps), r)

/-- `IPAProof.Read`: 8 L, 8 R, scalar -/
def ipaRead (sqrt : Fp → Option Fp) (r : Reader) : Except RdErr (IpaProof Fr Pt) × Reader :=
  match readPoints sqrt 8 r with
  | (.error e, r) => (.error e, r)
  | (.ok L, r) => match readPoints sqrt 8 r with
    | (.error e, r) => (.error e, r)
    | (.ok Rr, r) => match readScalar r with
      | (.error e, r) => (.error e, r)
      | (.ok a, r) => (.ok ⟨L, Rr, a⟩, r)

/-- `MultiProof.Read`: D, the IPA proof, then the stream must be exhausted
(probe with `io.ReadFull` on one byte: only a clean EOF is accepted) -/
def mpRead (sqrt : Fp → Option Fp) (r : Reader) : Except RdErr (MultiProof Fr Pt) :=
  match readPoint sqrt r with
  | (.error e, _) => .error e
  | (.ok D, r) => match ipaRead sqrt r with
    | (.error e, _) => .error e
    | (.ok ip, r) => match r.full 1 with
      | (.error .eof, _) => .ok ⟨ip, D⟩
      | _ => .error .trailing

/-- the specification: parse the whole byte string at once -/
def mpParse (sqrt : Fp → Option Fp) (b : Bytes) : Option (MultiProof Fr Pt) :=
  if b.length ≠ 576 then none
  else
    let chunk (i : Nat) : Bytes := (b.drop (32 * i)).take 32
    let pts := (List.range 17).map fun i => decodeCompressed sqrt (chunk i)
    match pts.mapM (fun e => match e with | .ok p => some p | .error _ => none),
          Fr.setBytesLECanonical (chunk 17) with
    | some ps, some a => some ⟨⟨(ps.drop 1).take 8, ps.drop 9, a⟩, ps.headD Pt.zero⟩
    | _, _ => none

/-- writer failing at the `j`-th `Write` call (0-based); `none` never fails -/
def writeChunks (chunks : List Bytes) (failAt : Option Nat) : Except Unit Bytes :=
  match failAt with
  | some j => if j < chunks.length then .error () else .ok chunks.flatten
  | none => .ok chunks.flatten

def MultiProof.chunks (p : MultiProof Fr Pt) : List Bytes :=
  [p.D.bytes] ++ p.ipa.L.map Pt.bytes ++ p.ipa.R.map Pt.bytes ++ [p.ipa.a.bytesLE]

/-! ### vocabulary of the serde translator (`go/cmd/extract/serde.go`) -/

/-- the decoders / encoders the (de)serialisation code calls -/
structure SerdeEnv (P S : Type) where
  /-- `banderwagon.Element.SetBytes` (`none` = error) -/
  decPoint : Bytes → Option P
  /-- `fr.Element.SetBytesLECanonical` -/
  decScalar : Bytes → Option S
  /-- `banderwagon.Element.Bytes` -/
  encPoint : P → Bytes
  /-- `fr.Element.BytesLE` -/
  encScalar : S → Bytes
  zeroP : P

/-- an `io.Writer` that fails at its `failAt`-th `Write` call (0-based), if any -/
structure Writer where
  out : Bytes
  calls : Nat
  failAt : Option Nat
deriving Repr

/-- one `Write` call (`binary.Write` of a byte array issues exactly one) -/
def Writer.write (w : Writer) (b : Bytes) : Option Writer :=
  if w.failAt = some w.calls then none else some { w with out := w.out ++ b, calls := w.calls + 1 }

end GoIpa
