/-
  The model behind the line protocol: one self-contained case per input line,
  one canonical output line.  Pure (`String → String`); the I/O shell is in
  `Driver/Main.lean`.  Core Lean only.
-/
import GoIpa.Model.FrInverse
import GoIpa.Model.FrSqrt
import GoIpa.Model.Serde
import GoIpa.Model.Ranges
import GoIpa.Model.Precomp
import GoIpa.Model.Pippenger
namespace GoIpa

/-- everything precomputed once per driver process -/
structure Ctx where
  cfg : IpaCfg Fr Pt
  lut : Array Nat
  srs : Array Pt

def Ctx.mk' : Ctx :=
  let cfg := mkConfig
  ⟨cfg, #[], cfg.srs.toArray⟩

def frOfHexBE (s : String) : Option Fr := do
  let b ← bytesOfHex s
  pure (Zp.ofNat R (beNat b))

def fpOfHexBE (s : String) : Option Fp := do
  let b ← bytesOfHex s
  pure (Zp.ofNat P (beNat b))

def frHex (a : Fr) : String := hexOfBytes a.bytesBE
def fpHex (a : Fp) : String := hexOfBytes a.bytesBE

def joinWith (sep : String) (l : List String) : String :=
  if l.isEmpty then "-" else sep.intercalate l

def splitList (sep : String) (s : String) : List String :=
  if s = "-" ∨ s = "" then [] else s.splitOn sep

/-- polynomial descriptors: `k<hex>` constant, `r<seed>` pseudo-random, `s<idx>=<hex>,…` sparse,
`u<idx>` unit vector, `m` all `r-1`, `x<hex>,<hex>,…` explicit -/
def randomPoly (seed : Nat) : List Fr := Id.run do
  let mut s : UInt64 := UInt64.ofNat seed
  let mut out : Array Fr := Array.mkEmpty 256
  for _ in [0:256] do
    let (v, s') := splitmix256 s
    s := s'
    out := out.push (Zp.ofNat R v)
  return out.toList

def parsePoly (d : String) : Option (List Fr) :=
  match d.toList with
  | 'k' :: rest => do let v ← frOfHexBE (String.ofList rest); pure (List.replicate 256 v)
  | 'r' :: rest => do let n ← (String.ofList rest).toNat?; pure (randomPoly n)
  | 'u' :: rest => do
      let n ← (String.ofList rest).toNat?
      pure ((List.range 256).map fun i => if i = n then 1 else 0)
  | ['m'] => some (List.replicate 256 (Zp.ofNat R (R - 1)))
  | ['z'] => some (List.replicate 256 0)
  | 's' :: rest => do
      let items ← (splitList "," (String.ofList rest)).mapM fun it =>
        match it.splitOn "=" with
        | [i, v] => do let i ← i.toNat?; let v ← frOfHexBE v; pure (i, v)
        | _ => none
      pure ((List.range 256).map fun i => match items.find? (·.1 = i) with | some (_, v) => v | none => 0)
  | 'x' :: rest => (splitList "," (String.ofList rest)).mapM frOfHexBE
  | _ => none

def vecHex (v : List Fr) : String := joinWith "," (v.map frHex)

/-! ### group programs -/

inductive Reg | pt (p : Pt) | zeroVal | bad

def Reg.get : Reg → Option Pt
  | .pt p => some p
  | _ => none

def evalInstr (ctx : Ctx) (regs : Array Reg) (ins : String) : Reg :=
  let reg (s : String) : Option Pt := do let i ← s.toNat?; (← regs[i]?).get
  let r : Option Reg :=
    match ins.splitOn ":" with
    | ["g"] => some (.pt Pt.generator)
    | ["o"] => some (.pt Pt.zero)
    | ["z"] => some .zeroVal
    | ["c", i] => do let i ← i.toNat?; pure (.pt (← ctx.srs[i]?))
    | ["dec", h] => do
        let b ← bytesOfHex h
        match decodeCompressed Fp.sqrtRef b with
        | .ok p => pure (.pt p)
        | .error _ => pure .bad
    | ["add", a, b] => do pure (.pt ((← reg a) + (← reg b)))
    | ["mix", a, b] => do pure (.pt ((← reg a) + (← reg b)))
    | ["sub", a, b] => do pure (.pt ((← reg a) - (← reg b)))
    | ["dbl", a] => do pure (.pt (Pt.double (← reg a)))
    | ["neg", a] => do pure (.pt (-(← reg a)))
    | ["set", a] => do pure (.pt (← reg a))
    | ["alias", a] => do pure (.pt (← reg a))
    | ["norm", a] => do pure (.pt (← reg a))
    | ["resc", a, _] => do pure (.pt (← reg a))
    | ["flip", a] => do pure (.pt (← reg a))
    | ["smul", a, s] => do pure (.pt ((← frOfHexBE s) • (← reg a)))
    | ["msm", rs, ss] => do
        let ps ← (splitList "," rs).mapM reg
        let sc ← (splitList "," ss).mapM frOfHexBE
        if ps.length ≠ sc.length then none else pure (.pt (msm ps sc))
    | ["pmsm", items] => do
        let its ← (splitList "," items).mapM fun it =>
          match it.splitOn "=" with
          | [i, v] => do let i ← i.toNat?; let v ← frOfHexBE v; pure ((← ctx.srs[i]?), v)
          | _ => none
        pure (.pt (msm (its.map (·.1)) (its.map (·.2))))
    | _ => none
  r.getD .bad

def runProg (ctx : Ctx) (prog : String) : Array Reg :=
  (splitList ";" prog).foldl (fun regs ins => regs.push (evalInstr ctx regs ins)) #[]

def regBytes : Reg → String
  | .pt p => hexOfBytes p.bytes
  | .zeroVal => "zero"
  | .bad => "bad"

/-- the representative of the class whose `y` is the larger root -/
def canonAff (p : Pt) : Aff Fp :=
  let a := p.toAff
  if Fp.lexLargest a.y then a else ⟨-a.x, -a.y⟩

def regXY : Reg → String
  | .pt p => let a := canonAff p; hexOfBytes (a.x.bytesBE ++ a.y.bytesBE)
  | .zeroVal => "zero"
  | .bad => "bad"

def regMap : Reg → String
  | .pt p => frHex p.mapToScalar
  | .zeroVal => "zero"
  | .bad => "bad"

def regEqual : Reg → Reg → Bool
  | .pt p, .pt q => p.equal q
  | _, _ => false

def opGrp (ctx : Ctx) (prog : String) : String :=
  let regs := (runProg ctx prog).toList
  let bs := joinWith "," (regs.map regBytes)
  let ms := joinWith "," (regs.map regMap)
  let xy := joinWith "," (regs.map regXY)
  let eq := joinWith "," (regs.map fun a => String.ofList (regs.map fun b => if regEqual a b then '1' else '0'))
  s!"{bs} {ms} {xy} {eq}"

/-! ### points for MSM cases: multiples of the generator, CRS points, identity -/

/-- the MSM of descriptors `g<k>` (k·G), `n<k>` (−k·G), `c<i>` (CRS point), `o` by scalar bookkeeping -/
def msmByBookkeeping (ctx : Ctx) (descs : List String) (scalars : List Fr) : Option Pt := do
  if descs.length ≠ scalars.length then none
  let mut gcoef : Fr := 0
  let mut ccoef : Array Fr := Array.replicate 256 0
  for (d, s) in List.zip descs scalars do
    match d.toList with
    | 'g' :: rest => let k ← (String.ofList rest).toNat?; gcoef := gcoef + s * Zp.ofNat R k
    | 'n' :: rest => let k ← (String.ofList rest).toNat?; gcoef := gcoef - s * Zp.ofNat R k
    | 'c' :: rest =>
        let i ← (String.ofList rest).toNat?
        if i ≥ 256 then none
        ccoef := ccoef.set! i (ccoef[i]! + s)
    | ['o'] => pure ()
    | _ => none
  let mut acc : Pt := gcoef • Pt.generator
  for i in [0:256] do
    if ccoef[i]!.val ≠ 0 then acc := acc + ccoef[i]! • ctx.srs[i]!
  return acc

/-! ### transcript histories -/

def parseTrOp (it : String) : Option (TrOp Fr Pt) :=
  match it.splitOn ":" with
  | ["d", l] => do pure (.domainSep (← bytesOfHex l))
  | ["m", l, m] => do pure (.message (← bytesOfHex m) (← bytesOfHex l))
  | ["s", l, s] => do pure (.scalar (← frOfHexBE s) (← bytesOfHex l))
  | ["p", l, p] => do
      match decodeCompressed Fp.sqrtRef (← bytesOfHex p) with
      | .ok pt => pure (.point pt (← bytesOfHex l))
      | .error _ => none
  | ["c", l] => do pure (.challenge (← bytesOfHex l))
  | _ => none

def opTr (label ops : String) : String :=
  match bytesOfHex label, (splitList ";" ops).mapM parseTrOp with
  | some l, some ops =>
    let (cs, _) := Tr.run encSha (Tr.new l) ops
    joinWith "," (cs.map fun c => hexOfBytes c.bytesLE)
  | _, _ => "bad-op"

/-- `trpair`: do the last challenges of two histories coincide, and do the hashed streams? -/
def lastChallenge (label : Bytes) (ops : List (TrOp Fr Pt)) : Option (Fr × Bytes) :=
  match ops.reverse with
  | .challenge l :: revInit =>
    let (_, t) := Tr.run encSha (Tr.new label) revInit.reverse
    some ((t.challenge encSha l).1, t.hashed ++ (t.buf ++ l))
  | _ => none

def opTrPair (la oa lb ob : String) : String :=
  match bytesOfHex la, (splitList ";" oa).mapM parseTrOp, bytesOfHex lb, (splitList ";" ob).mapM parseTrOp with
  | some la, some oa, some lb, some ob =>
    match lastChallenge la oa, lastChallenge lb ob with
    | some (ca, sa), some (cb, sb) =>
      if ca ≠ cb then "ne" else if sa = sb then "eq-stream" else "eq-nostream"
    | _, _ => "bad-op"
  | _, _, _, _ => "bad-op"

/-! ### proofs -/

def exceptStr : Except VErr Bool → String
  | .ok true => "1"
  | .ok false => "0"
  | .error _ => "err"

def stateChal (tr : Tr) : String :=
  hexOfBytes ((tr.challenge encSha (str "state")).1 : Fr).bytesLE

def parsePts (s : String) : Option (List Pt) :=
  (splitList "," s).mapM fun h => do
    match decodeCompressed Fp.sqrtRef (← bytesOfHex h) with
    | .ok p => some p
    | .error _ => none

/-- `ipa <label> <poly> <z>`: honest prove + verify -/
def opIpa (ctx : Ctx) (label poly z : String) : String :=
  match bytesOfHex label, parsePoly poly, frOfHexBE z with
  | some l, some a, some z =>
    let c := msm ctx.cfg.srs a
    let (pr, trP) := ipaProve encSha ctx.cfg (Tr.new l) c a z
    match pr with
    | none => "noproof"
    | some p =>
      let y := innerProd a (bVector ctx.cfg z)
      let (ok, trV) := ipaVerify encSha ctx.cfg (Tr.new l) c p z y
      s!"{hexOfBytes c.bytes} {hexOfBytes p.bytes} {frHex y} {stateChal trP} {exceptStr ok} {stateChal trV}"
  | _, _, _ => "bad-op"

/-- `ipav <label> <C> <z> <y> <Ls> <Rs> <a>`: verification of an arbitrary tuple -/
def opIpaVerify (ctx : Ctx) (label c z y ls rs a : String) : String :=
  match bytesOfHex label, parsePts c, frOfHexBE z, frOfHexBE y, parsePts ls, parsePts rs, frOfHexBE a with
  | some l, some [c], some z, some y, some ls, some rs, some a =>
    let (ok, tr) := ipaVerify encSha ctx.cfg (Tr.new l) c ⟨ls, rs, a⟩ z y
    match ok with
    | .error _ => "err"
    | _ => s!"{exceptStr ok} {stateChal tr}"
  | _, _, _, _, _, _, _ => "bad-op"

def parseOpening (s : String) : Option (List Fr × Nat) :=
  match ((s.splitOn "!").headD "").splitOn "@" with
  | [p, z] => do pure ((← parsePoly p), (← z.toNat?))
  | _ => none

/-- `mp <label> <opening;opening;…>`: honest multiproof, opening = `<poly>@<z>` -/
def opMp (ctx : Ctx) (label ops : String) : String :=
  match bytesOfHex label, (splitList ";" ops).mapM parseOpening with
  | some l, some os =>
    -- commitments: identical polynomials share one MSM
    let cs : List Pt := Id.run do
      let mut cache : List (List Fr × Pt) := []
      let mut out : Array Pt := #[]
      for (f, _) in os do
        match cache.find? (·.1 = f) with
        | some (_, c) => out := out.push c
        | none =>
          let c := msm ctx.cfg.srs f
          cache := (f, c) :: cache
          out := out.push c
      return out.toList
    let fs := os.map (·.1)
    let zs := os.map (·.2)
    let (pr, trP) := mpProve encSha ctx.cfg (Tr.new l) cs fs zs
    match pr with
    | none => "noproof"
    | some p =>
      let ys := os.map fun (f, z) => f.getD z 0
      let (ok, trV) := mpVerify encSha ctx.cfg (Tr.new l) p cs ys zs
      s!"{hexOfBytes p.bytes} {stateChal trP} {exceptStr ok} {stateChal trV}"
  | _, _ => "bad-op"

/-- `mpv <label> <Cs> <zs> <ys> <D> <Ls> <Rs> <a>`: verification of an arbitrary tuple -/
def opMpVerify (ctx : Ctx) (label cs zs ys d ls rs a : String) : String :=
  match bytesOfHex label, parsePts cs, (splitList "," zs).mapM String.toNat?, (splitList "," ys).mapM frOfHexBE,
        parsePts d, parsePts ls, parsePts rs, frOfHexBE a with
  | some l, some cs, some zs, some ys, some [d], some ls, some rs, some a =>
    let (ok, tr) := mpVerify encSha ctx.cfg (Tr.new l) ⟨⟨ls, rs, a⟩, d⟩ cs ys zs
    match ok with
    | .error _ => "err"
    | _ => s!"{exceptStr ok} {stateChal tr}"
  | _, _, _, _, _, _, _, _ => "bad-op"

/-! ### serialisation -/

def opSerde (ctx : Ctx) (data chunks eofWithData failAfter : String) : String :=
  match bytesOfHex data, (splitList "," chunks).mapM String.toNat? with
  | some b, some cs =>
    let r : Reader := ⟨b, cs, eofWithData = "1", failAfter.toNat?, 0⟩
    match mpRead (Fp.sqrtPrecomp) r with
    | .ok p => s!"ok {hexOfBytes p.bytes}"
    | .error _ => "err"
  | _, _ => "bad-op"

def opSerdeIpa (ctx : Ctx) (data chunks eofWithData failAfter : String) : String :=
  match bytesOfHex data, (splitList "," chunks).mapM String.toNat? with
  | some b, some cs =>
    let r : Reader := ⟨b, cs, eofWithData = "1", failAfter.toNat?, 0⟩
    match ipaRead (Fp.sqrtPrecomp) r with
    | (.ok p, r') => s!"ok {hexOfBytes p.bytes} {r'.delivered}"
    | (.error _, _) => "err"
  | _, _ => "bad-op"

/-- `rdpt` / `rdsc`: `common.ReadPoint` / `common.ReadScalar` over a scripted reader -/
def opReadPoint (ctx : Ctx) (data chunks eofWithData failAfter : String) : String :=
  match bytesOfHex data, (splitList "," chunks).mapM String.toNat? with
  | some b, some cs =>
    let r : Reader := ⟨b, cs, eofWithData = "1", failAfter.toNat?, 0⟩
    match readPoint (Fp.sqrtPrecomp) r with
    | (.ok p, r') => s!"ok {hexOfBytes p.bytes} {r'.delivered}"
    | (.error _, _) => "err"
  | _, _ => "bad-op"

def opReadScalar (data chunks eofWithData failAfter : String) : String :=
  match bytesOfHex data, (splitList "," chunks).mapM String.toNat? with
  | some b, some cs =>
    let r : Reader := ⟨b, cs, eofWithData = "1", failAfter.toNat?, 0⟩
    match readScalar r with
    | (.ok s, r') => s!"ok {frHex s} {r'.delivered}"
    | (.error _, _) => "err"
  | _, _ => "bad-op"

/-! ### field operations -/

def sqrtCanon (a : Option Fr) : String :=
  match a with
  | none => "nil"
  | some y => frHex (if y.val ≤ R - y.val ∨ y.val = 0 then y else -y)

/-- Tonelli–Shanks in the scalar field (2-adicity 5), reference -/
def Fr.sqrtRef (v : Fr) : Option Fr :=
  if v.val = 0 then some 0
  else if (v ^ ((R - 1) / 2)).val ≠ 1 then none
  else
    let q := (R - 1) / 32
    let rec loop : Nat → Nat → Fr → Fr → Fr → Option Fr
      | 0, _, _, _, _ => none
      | fuel + 1, m, c, t, r =>
        if t.val = 1 then some r
        else
          let i := ordLog t m
          if i ≥ m then none
          else
            let b := c ^ (2 ^ (m - i - 1))
            loop fuel i (b * b) (t * (b * b)) (r * b)
    loop 7 5 ((Zp.ofNat R 7) ^ q) (v ^ q) (v ^ ((q + 1) / 2))
where ordLog (t : Fr) : Nat → Nat
  | 0 => 0
  | fuel + 1 => if t.val = 1 then 0 else 1 + ordLog (t * t) fuel

def cmpStr (a b : Fr) : String := if a.val < b.val then "-1" else if a.val = b.val then "0" else "1"

def opFrBin (a b : String) : String :=
  match frOfHexBE a, frOfHexBE b with
  | some a, some b => s!"{frHex (a + b)} {frHex (a - b)} {frHex (a * b)} {cmpStr a b}"
  | _, _ => "bad-op"

def opFrBin2 (a b : String) : String :=
  match frOfHexBE a, frOfHexBE b with
  | some a, some b => s!"{frHex (a / b)} {frHex (a ^ b.val)}"
  | _, _ => "bad-op"

def opFrUn (a : String) : String :=
  match frOfHexBE a with
  | some a =>
    let three : Fr := Zp.ofNat R 3
    let five : Fr := Zp.ofNat R 5
    let thirteen : Fr := Zp.ofNat R 13
    s!"{frHex (-a)} {frHex (a + a)} {frHex (FrInv.inverseValue a)} {frHex (a * a)} {Fr.legendre a} {sqrtCanon (Fr.sqrtRef a)} {match FrSqrt.sqrt a with | none => "nil" | some y => frHex y} {frHex (three * a)} {frHex (five * a)} {frHex (thirteen * a)} {hexOfBytes a.bytesLE}"
  | none => "bad-op"

def opFrDec (kind data : String) : String :=
  match bytesOfHex data with
  | none => "bad-op"
  | some b =>
    match kind with
    | "be" => frHex (Fr.setBytes b)
    | "le" => frHex (Fr.setBytesLE b)
    | "lecanon" => match Fr.setBytesLECanonical b with | some s => frHex s | none => "err"
    | _ => "bad-op"

def opFrBatchInv (v : String) : String :=
  match (splitList "," v).mapM frOfHexBE with
  | some xs => vecHex (batchInvert xs)
  | none => "bad-op"

/-! ### base field, decoding -/

def fpCanonRoot (a : Option Fp) : String :=
  match a with
  | none => "nil"
  | some y => fpHex (if y.val ≤ P - y.val ∨ y.val = 0 then y else -y)

def opFpSqrt (ctx : Ctx) (v : String) : String :=
  match fpOfHexBE v with
  | some v =>
    -- the mirror of the table-driven algorithm must agree with Tonelli–Shanks up to sign
    let a := fpCanonRoot (Fp.sqrtRef v)
    let b := fpCanonRoot (Fp.sqrtPrecomp v)
    if a = b then a else s!"model-internal-disagreement {a} {b}"
  | none => "bad-op"

def opFromX (x largest : String) : String :=
  match fpOfHexBE x with
  | some x => match computeY Fp.sqrtRef x (largest = "1") with
    | none => "nil"
    | some y => fpHex y
  | none => "bad-op"

def decResult : Except DecErr Pt → String
  | .ok p => let a := canonAff p; s!"ok {hexOfBytes p.bytes} {hexOfBytes (a.x.bytesBE ++ a.y.bytesBE)}"
  | .error _ => "err"

def opPtDec (data : String) : String :=
  match bytesOfHex data with
  | some b => decResult (decodeCompressed Fp.sqrtRef b)
  | none => "bad-op"

def opPtDecUnc (data trusted : String) : String :=
  match bytesOfHex data with
  | some b => decResult (decodeUncompressed Fp.sqrtRef b (trusted = "1"))
  | none => "bad-op"

/-! ### barycentric -/

/-- direct Lagrange evaluation `Σ fᵢ ∏_{j≠i} (z−j)/(i−j)` (no shared tables) -/
def lagrangeEval (f : List Fr) (z : Fr) : Fr := Id.run do
  let mut acc : Fr := 0
  for i in [0:256] do
    let mut num : Fr := 1
    let mut den : Fr := 1
    for j in [0:256] do
      if j ≠ i then
        num := num * (z - Zp.ofNat R j)
        den := den * (Zp.ofNat R i - Zp.ofNat R j)
    acc := acc + f.getD i 0 * num / den
  return acc

def opBaryEval (poly z : String) : String :=
  match parsePoly poly, frOfHexBE z with
  | some f, some z => frHex (lagrangeEval f z)
  | _, _ => "bad-op"

def opBaryCoeffs (ctx : Ctx) (z : String) : String :=
  match frOfHexBE z with
  | some z => vecHex (ctx.cfg.weights.baryCoeffs 256 z)
  | none => "bad-op"

def opBaryDiv (ctx : Ctx) (k poly : String) : String :=
  match k.toNat?, parsePoly poly with
  | some k, some f => vecHex (ctx.cfg.weights.divideOnDomain 256 k f)
  | _, _ => "bad-op"

def opBaryTables (ctx : Ctx) : String :=
  s!"{vecHex ctx.cfg.weights.bary} {vecHex ctx.cfg.weights.invDom}"

/-! ### commitments, tables, MSM -/

def opCommit (ctx : Ctx) (poly : String) : String :=
  match parsePoly poly with
  | some f => hexOfBytes (msm ctx.cfg.srs f).bytes
  | none => "bad-op"

/-- table entry `j` of window `k` of basis point `i`: the exact curve point `(j+1)·2^(w·k)·Gᵢ` -/
def opPtab (ctx : Ctx) (i k j : String) : String :=
  match i.toNat?, k.toNat?, j.toNat? with
  | some i, some k, some j =>
    if i ≥ 256 then "bad-op" else
    let w := if i < 5 then 16 else 8
    let p := Pt.nsmul ((j + 1) * 2 ^ (w * k)) ctx.srs[i]!
    let a := canonAff p
    s!"{fpHex a.x} {fpHex a.y}"
  | _, _, _ => "bad-op"

/-- `commit.lin a b k idx delta`: `Commit(a)+Commit(b)`, `k•Commit(a)`, `Commit(a)+delta•G_idx` -/
def opCommitLin (ctx : Ctx) (a b k idx delta : String) : String :=
  match parsePoly a, parsePoly b, frOfHexBE k, idx.toNat?, frOfHexBE delta with
  | some a, some b, some k, some idx, some delta =>
    if idx ≥ 256 then "bad-op" else
    let ca := msm ctx.cfg.srs a
    let cb := msm ctx.cfg.srs b
    s!"{hexOfBytes (ca + cb).bytes} {hexOfBytes (k • ca).bytes} {hexOfBytes (ca + delta • ctx.srs[idx]!).bytes}"
  | _, _, _, _, _ => "bad-op"

def opMsm (ctx : Ctx) (pts scalars : String) : String :=
  match (splitList "," scalars).mapM frOfHexBE with
  | some ss => match msmByBookkeeping ctx (splitList "," pts) ss with
    | some p => hexOfBytes p.bytes
    | none => "err"
  | none => "bad-op"

def opRanges (n m : String) : String :=
  match n.toNat?, m.toNat? with
  | some n, some m => joinWith "," ((ranges n m).map fun (a, b) => s!"{a}-{b}")
  | _, _ => "bad-op"

/-- recoder / Pippenger models run over the group ℤ (base point 1): must return the scalar -/
instance : Neg Int := ⟨Int.neg⟩
def opRecodeInt (w s : String) : String :=
  match w.toNat?, frOfHexBE s with
  | some w, some s =>
    let r : Int := precompScalarMul w (fun k j => (((j + 1) * 2 ^ (w * k) : Nat) : Int)) s.val 0
    toString r
  | _, _ => "bad-op"

def opPippengerInt (c split scalars : String) : String :=
  match c.toNat?, (splitList "," scalars).mapM frOfHexBE with
  | some c, some ss =>
    let pts : List Int := (List.range ss.length).map fun i => ((i + 1 : Nat) : Int)
    let parts := ss.map fun s => partitionScalar c s.val
    let r : Int := msmInner (fun x => x + x) c pts parts (split = "1")
    toString (r % (R : Int))
  | _, _ => "bad-op"

/-- dispatch one line -/
def runLine (ctx : Ctx) (line : String) : String :=
  match (line.trimAscii.toString).splitOn " " with
  | ["ranges", n, m] => opRanges n m
  | ["rangesd", n, m] => opRanges n m
  | ["trpair", la, oa, lb, ob] => opTrPair la oa lb ob
  | ["commit.lin", a, b, k, i, d] => opCommitLin ctx a b k i d
  | ["batch", prog] => opGrp ctx prog
  | ["batchfail", _, _] => "err-unchanged"
  | ["fr.dec", k, d] => opFrDec k d
  | ["fr.bin", a, b] => opFrBin a b
  | ["fr.bin2", a, b] => opFrBin2 a b
  | ["fr.un", a] => opFrUn a
  | ["fr.batchinv", v] => opFrBatchInv v
  | ["tr", l, ops] => opTr l ops
  | ["pt.dec", d] => opPtDec d
  | ["pt.decunc", d, t] => opPtDecUnc d t
  | ["fp.sqrt", v] => opFpSqrt ctx v
  | ["pt.fromx", x, b] => opFromX x b
  | ["fp.hist", x, b, v] => opFromX x b ++ " " ++ opFpSqrt ctx v
  | ["grp", prog] => opGrp ctx prog
  | ["commit", p] => opCommit ctx p
  | ["ptab", i, k, j] => opPtab ctx i k j
  | ["msm", _, _, pts, ss] => opMsm ctx pts ss
  | ["msmc", _, _, pts, ss] => opMsm ctx pts ss
  | ["ipa", l, p, z] => opIpa ctx l p z
  | ["ipav", l, c, z, y, ls, rs, a] => opIpaVerify ctx l c z y ls rs a
  | ["mp", l, ops] => opMp ctx l ops
  | ["mpv", l, cs, zs, ys, d, ls, rs, a] => opMpVerify ctx l cs zs ys d ls rs a
  | ["serde", d, c, e, f] => opSerde ctx d c e f
  | ["serde.ipa", d, c, e, f] => opSerdeIpa ctx d c e f
  | ["rdpt", d, c, e, f] => opReadPoint ctx d c e f
  | ["rdsc", d, c, e, f] => opReadScalar d c e f
  | ["bary.eval", p, z] => opBaryEval p z
  | ["bary.coeffs", z] => opBaryCoeffs ctx z
  | ["bary.div", k, p] => opBaryDiv ctx k p
  | ["bary.tables"] => opBaryTables ctx
  | ["recode.int", w, s] => opRecodeInt w s
  | ["pip.int", c, sp, ss] => opPippengerInt c sp ss
  | _ => "bad-op"

end GoIpa
