/-
  `Element.Sqrt` of `bandersnatch/fr` (Tonelli–Shanks for 2-adicity 5, in the shape of the Go
  code: Legendre test by four squarings of `x^s`, then the loop on `(g, y, b, r)`), on values.
  `Element.Exp` (square-and-multiply from the most significant bit).  Core Lean only.
-/
import GoIpa.Model.Field
namespace GoIpa.FrSqrt

/-- `Exp`: `z = x; for i from BitLen−2 down to 0 { z = z²; if bit i { z *= x } }`;
`bits` = the exponent's bits below the leading one, most significant first -/
def expBits (x : Fr) : List Bool → Fr → Fr
  | [], z => z
  | b :: bs, z => expBits x bs (if b then z * z * x else z * z)

/-- bits of `e` below its leading one, most significant first (`fuel` ≥ bit length) -/
def lowBits : Nat → Nat → List Bool
  | 0, _ => []
  | fuel + 1, e => if e ≤ 1 then [] else lowBits fuel (e / 2) ++ [decide (e % 2 = 1)]

/-- `z.Exp(x, e)` -/
def exp (x : Fr) (e : Nat) : Fr := if e = 0 then 1 else expBits x (lowBits (e.log2 + 1) e) x

/-- `s` with `r − 1 = 2^5·s` -/
def sOdd : Nat := (R - 1) / 32

/-- the hard-coded `g = nonResidue^s` (as a value): `7^s` -/
def gConst : Fr := Zp.pow (Zp.ofNat R 7) sOdd

/-- `for t != 1 { t = t²; m++ }`, bounded by `fuel` -/
def countSq : Nat → Fr → Nat
  | 0, _ => 0
  | fuel + 1, t => if t.val = 1 then 0 else 1 + countSq fuel (t * t)

def sqN : Nat → Fr → Fr
  | 0, t => t
  | n + 1, t => sqN n (t * t)

/-- the main loop on `(g, y, b, r)`; `none` only if the fuel of the model runs out -/
def loop : Nat → Fr → Fr → Fr → Nat → Option Fr
  | 0, _, _, _, _ => none
  | fuel + 1, g, y, b, r =>
    let m := countSq r b
    if m = 0 then some y
    else
      let t := sqN (r - m - 1) g
      let g := t * t
      loop fuel g (y * t) (b * g) m

/-- `z.Sqrt(x)`: `none` = the Go `nil` -/
def sqrt (x : Fr) : Option Fr :=
  let w := exp x ((sOdd - 1) / 2)
  let y := x * w
  let b := w * y
  let t := sqN 4 b
  if t.val = 0 then some 0
  else if t.val ≠ 1 then none
  else loop 6 gConst y b 5

end GoIpa.FrSqrt
