/-
  Fixed-base MSM with precomputed tables (`banderwagon/precomp.go`): table
  construction, the signed-window recoder with carry, the 256-MSM.
  Generic in the group.  Core Lean only.
-/
import GoIpa.Model.Basic
namespace GoIpa

section
variable {G : Type} [Zero G] [Add G] [Neg G]

/-- 64-bit limb `l` of a 256-bit integer -/
def limb (s l : Nat) : Nat := (s >>> (64 * l)) &&& (2^64 - 1)

/-- the raw window value the code extracts: limb `k / (64/w)`, position `k % (64/w)` -/
def windowRaw (w s k : Nat) : Nat :=
  let perLimb := 64 / w
  ((limb s (k / perLimb)) >>> (w * (k % perLimb))) &&& ((1 <<< w) - 1)

/-- one iteration of the loop body of `PrecompPoint.ScalarMul`; state = (accumulator, carry) -/
def precompStep (w : Nat) (tbl : Nat → Nat → G) (s : Nat) (st : G × Nat) (k : Nat) : G × Nat :=
  let v := windowRaw w s k + st.2
  if v = 0 then st
  else if v > 1 <<< (w - 1) then
    let v' := (1 <<< w) - v
    (if v' ≠ 0 then st.1 + -(tbl k (v' - 1)) else st.1, 1)
  else (st.1 + tbl k (v - 1), 0)

/-- `PrecompPoint.ScalarMul`: all `256 / w` windows, least significant first; the final
carry is dropped, as in the code -/
def precompScalarMul (w : Nat) (tbl : Nat → Nat → G) (s : Nat) (acc : G) : G :=
  ((List.range (256 / w)).foldl (precompStep w tbl s) (acc, 0)).1

/-- `MSMPrecomp.MSM`: zero scalars skipped; 16-bit windows for the first `lim` points -/
def precompMSM (lim : Nat) (tbls : Nat → Nat → Nat → G) (scalars : List Nat) : G :=
  (List.zipIdx scalars).foldl (fun acc (e : Nat × Nat) =>
    if e.1 = 0 then acc else precompScalarMul (if e.2 < lim then 16 else 8) (tbls e.2) e.1 acc) 0

/-- `NewPrecompPoint`: window `k` holds `base_k, 2·base_k, …` built by repeated addition,
where `base_{k+1} = 2^w • base_k` (passed as `shift`) -/
def buildWindow (base : G) : Nat → G → List G
  | 0, _ => []
  | n + 1, curr => curr :: buildWindow base n (curr + base)

def buildTable (w : Nat) (shift : G → G) : Nat → G → List (List G)
  | 0, _ => []
  | n + 1, base => buildWindow base (1 <<< (w - 1)) base :: buildTable w shift n (shift base)

end
end GoIpa
