/-
  The concrete instance executed by the driver: SHA-256, Bandersnatch,
  the published CRS ("eth_verkle_oct_2021"), `N = 256`.  Core Lean only.
-/
import GoIpa.Model.Sha256
import GoIpa.Model.Element
import GoIpa.Model.Multiproof
namespace GoIpa

/-- hash to field: SHA-256, read little-endian, reduce modulo `r` -/
def challengeOfStream (s : Bytes) : Fr := Zp.ofNat R (leNat (Sha256.hash s))

def encSha : Enc Fr Pt where
  ptBytes := Pt.bytes
  scBytes := Zp.bytesLE
  chal := challengeOfStream
  eqG := Pt.equal

/-- `GenerateRandomPoints`: try-and-increment from the seed -/
def genPointsAux (sqrt : Fp → Option Fp) (seed : Bytes) : Nat → Nat → Nat → List Pt → List Pt
  | 0, _, _, acc => acc.reverse
  | fuel + 1, want, incr, acc =>
    if acc.length = want then acc.reverse
    else
      let h := Sha256.hash (seed ++ natToBE 8 incr)
      let x : Fp := Zp.ofNat P (beNat h)
      match decodeCompressed sqrt x.bytesBE with
      | .ok p => genPointsAux sqrt seed fuel want (incr + 1) (p :: acc)
      | .error _ => genPointsAux sqrt seed fuel want (incr + 1) acc

def crsSeed : Bytes := str "eth_verkle_oct_2021"

def generateRandomPoints (n : Nat) : List Pt := genPointsAux Fp.sqrtRef crsSeed (64 * n + 64) n 0 []

def frInDomain (N : Nat) (z : Fr) : Option Nat := if z.val ≤ N - 1 then some z.val else none

def mkConfig : IpaCfg Fr Pt where
  srs := generateRandomPoints 256
  Q := Pt.generator
  weights := Weights.new 256
  N := 256
  rounds := 8
  inDomain := frInDomain 256

/-- `IPAProof.Write` -/
def IpaProof.bytes (p : IpaProof Fr Pt) : Bytes :=
  (p.L.map Pt.bytes).flatten ++ (p.R.map Pt.bytes).flatten ++ p.a.bytesLE

/-- `MultiProof.Write` -/
def MultiProof.bytes (p : MultiProof Fr Pt) : Bytes := p.D.bytes ++ p.ipa.bytes

end GoIpa
