/-
  The vocabulary of the loop translator (`go/cmd/extract/loops.go`): counting loops over a state,
  slice reads and writes with an `Int` index.  Core Lean only.
-/
namespace GoIpa.Loop

/-- `for i := lo; i < hi; i++ { st = body i st }` -/
def forUp {σ : Type} (lo hi : Int) (st : σ) (body : Int → σ → σ) : σ :=
  (List.range (hi - lo).toNat).foldl (fun st (k : Nat) => body (lo + (k : Int)) st) st

/-- `for i := hi; i >= lo; i-- { st = body i st }` -/
def forDown {σ : Type} (hi lo : Int) (st : σ) (body : Int → σ → σ) : σ :=
  (List.range (hi - lo + 1).toNat).foldl (fun st (k : Nat) => body (hi - (k : Int)) st) st

/-- `for i := lo; i < hi; i++ { st = body i st }` with natural-number bounds -/
def forNat {σ : Type} (lo hi : Nat) (st : σ) (body : Nat → σ → σ) : σ :=
  (List.range (hi - lo)).foldl (fun st (k : Nat) => body (lo + k) st) st

/-- `for cond(st) { st = body st }`, cut off after `fuel` iterations -/
def whileN {σ : Type} : Nat → (σ → Bool) → (σ → σ) → σ → σ
  | 0, _, _, st => st
  | fuel + 1, cond, body, st => if cond st then whileN fuel cond body (body st) else st

/-- a counting loop that an error return can leave: `none` once an iteration has failed -/
def forUpOpt {σ : Type} (lo hi : Int) (st : σ) (body : Int → σ → Option σ) : Option σ :=
  forUp lo hi (some st) (fun i o => match o with | none => none | some s => body i s)

/-- `a & b` and `a << b` on the non-negative integers these functions use -/
def band (a b : Int) : Int := ((a.toNat &&& b.toNat : Nat) : Int)
def shl (a b : Int) : Int := ((a.toNat <<< b.toNat : Nat) : Int)
/-- `a << b` on a `uint64` (wraps at 64 bits), `a >> b`, `a | b` -/
def shl64 (a b : Int) : Int := (((a.toNat <<< b.toNat) % 18446744073709551616 : Nat) : Int)
def shr (a b : Int) : Int := ((a.toNat >>> b.toNat : Nat) : Int)
def bor (a b : Int) : Int := ((a.toNat ||| b.toNat : Nat) : Int)
/-- `a &^ b` (and-not) -/
def bandNot (a b : Int) : Int := ((a.toNat - (a.toNat &&& b.toNat) : Nat) : Int)

/-- `l[i]` (the zero value outside the slice, where Go panics) -/
def get {α : Type} (l : List α) (i : Int) (d : α) : α := if i < 0 then d else l.getD i.toNat d

/-- `l[i] = v` (no effect outside the slice, where Go panics) -/
def set {α : Type} (l : List α) (i : Int) (v : α) : List α := if i < 0 then l else l.set i.toNat v

/-- `l[:n]` -/
def take {α : Type} (l : List α) (n : Int) : List α := l.take n.toNat
/-- `l[n:]` -/
def drop {α : Type} (l : List α) (n : Int) : List α := l.drop n.toNat

end GoIpa.Loop
