/-
  Batch helpers of `banderwagon/element.go`: batch serialisers, batch map-to-field and
  `BatchNormalize` on a heap with arbitrary pointer aliasing.  Generic in the field.
  Core Lean only.
-/
import GoIpa.Model.Element
import GoIpa.Model.Bary
namespace GoIpa

section
variable {F : Type} [Zero F] [One F] [Add F] [Sub F] [Mul F] [Neg F] [Inv F] [DecidableEq F]

/-- `BatchMapToScalarField` before the reduction into the scalar field: `Xᵢ · (Yᵢ)⁻¹` with the
inverses from one batch inversion -/
def batchMapToBase (ps : List (Proj F)) : List F :=
  List.zipWith (fun p yi => p.X * yi) ps (batchInvert (ps.map (·.Y)))

/-- `ElementsToBytes` -/
def batchEncode (lexLargest : F → Bool) (enc : F → Bytes) (ps : List (Proj F)) : List Bytes :=
  List.zipWith (fun p zi =>
    let x := p.X * zi
    let y := p.Y * zi
    if lexLargest y then enc x else enc (-x)) ps (batchInvert (ps.map (·.Z)))

/-- `BatchToBytesUncompressed` -/
def batchEncodeUncompressed (enc : F → Bytes) (ps : List (Proj F)) : List Bytes :=
  List.zipWith (fun p zi => enc (p.X * zi) ++ enc (p.Y * zi)) ps (batchInvert (ps.map (·.Z)))

/-- single-element normalisation -/
def Proj.normalize (p : Proj F) : Proj F := ⟨p.X * p.Z⁻¹, p.Y * p.Z⁻¹, 1⟩

/-- `BatchNormalize` on a heap: `ptrs` may repeat; `order` is the iteration order of the
de-duplicated pointer set (Go map order: arbitrary).  `none` = error, heap untouched. -/
def batchNormalize (heap : List (Proj F)) (order : List Nat) : Option (List (Proj F)) :=
  if order.any (fun i => (heap.getD i ⟨0, 0, 0⟩).Z = 0) then none
  else
    let zs := order.map fun i => (heap.getD i ⟨0, 0, 0⟩).Z
    -- Montgomery trick over the de-duplicated elements, error-on-zero variant (no zero among zs)
    let invs := batchInvert zs
    some ((List.zip order invs).foldl (fun h (e : Nat × F) =>
      let p := h.getD e.1 ⟨0, 0, 0⟩
      h.set e.1 ⟨p.X * e.2, p.Y * e.2, 1⟩) heap)

end
end GoIpa
