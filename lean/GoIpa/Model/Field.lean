/-
  Executable prime fields: `Zp n` is the integers modulo `n` with canonical
  representatives.  `Fr` is the Bandersnatch scalar field, `Fp` its base field
  (= the BLS12-381 scalar field).  Core Lean only.
-/
import GoIpa.Model.Basic
namespace GoIpa

/-- the Bandersnatch group order (scalar field modulus) -/
def R : Nat := 13108968793781547619861935127046491459309155893440570251786403306729687672801
/-- the base field modulus -/
def P : Nat := 52435875175126190479447740508185965837690552500527637822603658699938581184513

/-- integers modulo `n`, canonical representative -/
structure Zp (n : Nat) where
  val : Nat
  lt : val < n
deriving DecidableEq

instance {n} : Repr (Zp n) := ⟨fun a _ => repr a.val⟩

namespace Zp
variable {n : Nat}

def ofNat (n : Nat) [h : NeZero n] (a : Nat) : Zp n := ⟨a % n, Nat.mod_lt _ (Nat.pos_of_ne_zero h.out)⟩

variable [NeZero n]

instance : Inhabited (Zp n) := ⟨ofNat n 0⟩
instance : Zero (Zp n) := ⟨ofNat n 0⟩
instance : One (Zp n) := ⟨ofNat n 1⟩
instance : NatCast (Zp n) := ⟨ofNat n⟩
instance : Add (Zp n) := ⟨fun a b => ofNat n (a.val + b.val)⟩
instance : Mul (Zp n) := ⟨fun a b => ofNat n (a.val * b.val)⟩
instance : Neg (Zp n) := ⟨fun a => ofNat n (n - a.val)⟩
instance : Sub (Zp n) := ⟨fun a b => ofNat n (a.val + (n - b.val))⟩

/-- square-and-multiply, structural on `fuel` (≥ bit length of `e`) -/
def powAux : Nat → Zp n → Nat → Zp n → Zp n
  | 0, _, _, acc => acc
  | fuel + 1, b, e, acc =>
    if e = 0 then acc
    else powAux fuel (b * b) (e / 2) (if e % 2 = 1 then acc * b else acc)

def pow (a : Zp n) (e : Nat) : Zp n := powAux (e.log2 + 1) a e 1

instance : HPow (Zp n) Nat (Zp n) := ⟨pow⟩

/-- Fermat inverse; `0⁻¹ = 0` as in the implementation -/
instance : Inv (Zp n) := ⟨fun a => pow a (n - 2)⟩
instance : Div (Zp n) := ⟨fun a b => a * b⁻¹⟩

def isZero (a : Zp n) : Bool := a.val == 0

end Zp

instance : NeZero R := ⟨by decide⟩
instance : NeZero P := ⟨by decide⟩

abbrev Fr := Zp R
abbrev Fp := Zp P

/-- 32-byte big-endian encoding of the canonical representative -/
def Zp.bytesBE {n} (a : Zp n) : Bytes := natToBE 32 a.val
def Zp.bytesLE {n} (a : Zp n) : Bytes := natToLE 32 a.val

/-- `(p-1)/2 < y`, i.e. `y` is the larger of `{y, -y}` -/
def Fp.lexLargest (y : Fp) : Bool := decide ((P - 1) / 2 < y.val)

/-- Euler criterion: 1, 0 or -1 (as `Int`) -/
def Fp.legendre (a : Fp) : Int :=
  let l := a ^ ((P - 1) / 2)
  if l.val = 0 then 0 else if l.val = 1 then 1 else -1

def Fr.legendre (a : Fr) : Int :=
  let l := a ^ ((R - 1) / 2)
  if l.val = 0 then 0 else if l.val = 1 then 1 else -1

end GoIpa
