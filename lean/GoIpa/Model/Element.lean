/-
  Banderwagon group elements: classes `{(x,y), (-x,-y)}` of Bandersnatch points
  with `1 - a x²` a square, in projective coordinates.  Encoding, decoding,
  equality, map-to-scalar-field.  Core Lean only.
-/
import GoIpa.Model.Curve
import GoIpa.Model.Sqrt
namespace GoIpa

section generic
variable {F : Type} [Zero F] [One F] [Add F] [Sub F] [Mul F] [Neg F] [Inv F] [DecidableEq F]

/-- `Element.Equal`: false as soon as one side has `X = Y = 0`, else `X₁Y₂ = Y₁X₂` -/
def Proj.equalE (p q : Proj F) : Bool :=
  if p.X = 0 ∧ p.Y = 0 then false
  else if q.X = 0 ∧ q.Y = 0 then false
  else decide (p.X * q.Y = p.Y * q.X)

/-- `x / y`, the class invariant that `MapToScalarField` serialises -/
def Proj.mapToBase (p : Proj F) : F := p.X * p.Y⁻¹

/-- compressed encoding of the class, relative to a sign predicate and a field encoder -/
def Proj.encode (lexLargest : F → Bool) (enc : F → Bytes) (p : Proj F) : Bytes :=
  let q := if p.Z = 1 then (⟨p.X, p.Y⟩ : Aff F) else p.toAff
  if lexLargest q.y then enc q.x else enc (-q.x)
end generic

abbrev Pt := Proj Fp

namespace Pt
def add (p q : Pt) : Pt := Proj.add bandersnatch p q
def double (p : Pt) : Pt := Proj.double bandersnatch p
def neg (p : Pt) : Pt := Proj.neg p
def sub (p q : Pt) : Pt := add p (neg q)
def zero : Pt := Proj.zero
def generator : Pt := Proj.ofAff generatorAff
def nsmul (n : Nat) (p : Pt) : Pt := Proj.nsmul bandersnatch n p
def smul (s : Fr) (p : Pt) : Pt := nsmul s.val p

instance : Add Pt := ⟨add⟩
instance : Neg Pt := ⟨neg⟩
instance : Sub Pt := ⟨sub⟩
instance : Zero Pt := ⟨zero⟩
instance : SMul Fr Pt := ⟨smul⟩
instance : SMul Nat Pt := ⟨nsmul⟩
instance : Inhabited Pt := ⟨zero⟩

def bytes (p : Pt) : Bytes := Proj.encode Fp.lexLargest Zp.bytesBE p
def equal (p q : Pt) : Bool := Proj.equalE p q

def bytesUncompressed (p : Pt) : Bytes :=
  let a := p.toAff
  a.x.bytesBE ++ a.y.bytesBE

def mapToScalar (p : Pt) : Fr := Zp.ofNat R (leNat (p.mapToBase).bytesLE)

def onCurve (p : Pt) : Bool := decide (p.toAff.onCurve bandersnatch)
end Pt

/-- `y² = (a x² − 1)/(d x² − 1)`; the requested root, `none` when no point has this `x` -/
def computeY (sqrt : Fp → Option Fp) (x : Fp) (largest : Bool) : Option Fp :=
  let c := bandersnatch
  let num := c.a * (x * x) - 1
  let den := c.d * (x * x) - 1
  match sqrt (num / den) with
  | none => none
  | some y => if Fp.lexLargest y = largest then some y else some (-y)

/-- `1 − a x²` is a non-zero square -/
def subgroupOk (x : Fp) : Bool := Fp.legendre (1 - bandersnatch.a * (x * x)) == 1

inductive DecErr | size | nonCanonical | notOnCurve | wrongY | notInSubgroup
deriving DecidableEq, Repr

/-- `Element.SetBytes` / `SetBytesUnsafe` -/
def decodeCompressed (sqrt : Fp → Option Fp) (buf : Bytes) (trusted : Bool := false) : Except DecErr Pt :=
  if buf.length ≠ 32 then .error .size
  else if h : beNat buf < P then
    let x : Fp := ⟨beNat buf, h⟩
    match computeY sqrt x true with
    | none => .error .notOnCurve
    | some y =>
      if !trusted && !subgroupOk x then .error .notInSubgroup
      else .ok ⟨x, y, 1⟩
  else .error .nonCanonical

/-- `Element.SetBytesUncompressed` as the property demands it: on the untrusted path both
coordinates canonical, on the curve, `y` the larger root, subgroup test -/
def decodeUncompressed (sqrt : Fp → Option Fp) (buf : Bytes) (trusted : Bool) : Except DecErr Pt :=
  if buf.length ≠ 64 then .error .size
  else
    let xb := buf.take 32
    let yb := buf.drop 32
    if trusted then .ok ⟨Zp.ofNat P (beNat xb), Zp.ofNat P (beNat yb), 1⟩
    else if h : beNat xb < P then
      let x : Fp := ⟨beNat xb, h⟩
      match computeY sqrt x true with
      | none => .error .notOnCurve
      | some y =>
        if y.bytesBE ≠ yb then .error .wrongY
        else if !subgroupOk x then .error .notInSubgroup
        else .ok ⟨x, y, 1⟩
    else .error .nonCanonical

end GoIpa
