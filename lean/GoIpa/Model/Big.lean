/-
  The vocabulary of the codec translator (`go/cmd/extract/codec.go`): the few `math/big`,
  `encoding/binary` and limb-array operations the byte codecs of `bandersnatch/fr/element.go`
  use, as total functions.  A `*big.Int` is an `Int`, a `[]byte` / `[32]byte` a `Bytes`,
  an `fr.Element` an `L4`.  Core Lean only.
-/
import GoIpa.Model.Basic
import GoIpa.Model.FrLimbs
import GoIpa.Model.Loop
namespace GoIpa.Big
open GoIpa GoIpa.Limbs

/-- `x.SetBytes(e)`: the big-endian unsigned integer -/
def setBytes (e : Bytes) : Int := (beNat e : Int)

/-- `a.Cmp(b)` ∈ {-1, 0, 1} -/
def cmp (a b : Int) : Int := if a < b then -1 else if a = b then 0 else 1

/-- `z.Mod(a, m)`: Euclidean modulus (Go's `big.Int.Mod`) -/
def mod (a m : Int) : Int := a.emod m

/-- the little-endian 64-bit words of a natural number, without leading zero words -/
def wordsLE (n : Nat) : List Nat :=
  if h : n = 0 then [] else (n % W) :: wordsLE (n / W)
termination_by n
decreasing_by exact Nat.div_lt_self (Nat.pos_of_ne_zero h) (by decide)

/-- `v.Bits()` on a 64-bit platform: the words of `|v|` -/
def bits (v : Int) : List Nat := wordsLE v.natAbs

/-- `v.BitLen()` -/
def bitLen (v : Int) : Int := if v = 0 then 0 else ((v.natAbs.log2 + 1 : Nat) : Int)

/-- `v.Bit(i)` for `v ≥ 0` (Go uses two's complement for negative values; not modelled) -/
def bit (v : Int) (i : Int) : Nat := if i < 0 then 0 else v.natAbs / 2 ^ i.toNat % 2

/-- `z[i]` -/
def limb (z : L4) (i : Int) : Nat :=
  if i = 0 then z.l0 else if i = 1 then z.l1 else if i = 2 then z.l2 else if i = 3 then z.l3 else 0

/-- `z[i] = v` (Go panics for `i ∉ 0..3`; the model leaves `z` unchanged there) -/
def setLimb (z : L4) (i : Int) (v : Nat) : L4 :=
  if i = 0 then { z with l0 := v } else if i = 1 then { z with l1 := v }
  else if i = 2 then { z with l2 := v } else if i = 3 then { z with l3 := v } else z

/-- `binary.BigEndian.PutUint64(res[lo:hi], v)` — writes the 8 bytes at `lo` -/
def putBE (res : Bytes) (lo _hi : Int) (v : Nat) : Bytes :=
  res.take lo.toNat ++ natToBE 8 v ++ res.drop (lo.toNat + 8)

/-- `binary.LittleEndian.PutUint64(res[lo:hi], v)` -/
def putLE (res : Bytes) (lo _hi : Int) (v : Nat) : Bytes :=
  res.take lo.toNat ++ natToLE 8 v ++ res.drop (lo.toNat + 8)

/-- `make([]byte, n)` -/
def zeros (n : Int) : Bytes := List.replicate n.toNat 0

end GoIpa.Big
