/-
  Twisted Edwards arithmetic `a x² + y² = 1 + d x² y²`, generic in the field:
  the affine law and the projective / extended formulas used by go-ipa
  (gnark-crypto's `add-2008-bbjlp`, `dbl-2008-bbjlp`, `madd-2008-bbjlp`,
  `add-2008-hwcd` and the repository's own `ExtendedAddNormalized`).
  The same definitions are executed by the driver at `F := Fp` and reasoned
  about in `Props` over an arbitrary field.  Core Lean only.
-/
import GoIpa.Model.Field
namespace GoIpa

structure Curve (F : Type) where
  a : F
  d : F

structure Aff (F : Type) where
  x : F
  y : F
deriving DecidableEq, Repr

structure Proj (F : Type) where
  X : F
  Y : F
  Z : F
deriving DecidableEq, Repr

structure Ext (F : Type) where
  X : F
  Y : F
  Z : F
  T : F
deriving DecidableEq, Repr

/-- extended point with `Z = 1` left implicit (`PointExtendedNormalized`) -/
structure ExtN (F : Type) where
  X : F
  Y : F
  T : F
deriving DecidableEq, Repr

section
variable {F : Type} [Zero F] [One F] [Add F] [Sub F] [Mul F] [Neg F] [Inv F]

namespace Aff
def onCurve (c : Curve F) (p : Aff F) : Prop :=
  c.a * (p.x * p.x) + p.y * p.y = 1 + c.d * (p.x * p.x) * (p.y * p.y)

instance (c : Curve F) [DecidableEq F] (p : Aff F) : Decidable (p.onCurve c) := by
  unfold onCurve; infer_instance

def zero : Aff F := ⟨0, 1⟩
def neg (p : Aff F) : Aff F := ⟨-p.x, p.y⟩
/-- the other member of the Banderwagon class -/
def flip (p : Aff F) : Aff F := ⟨-p.x, -p.y⟩

/-- unified affine addition law -/
def add (c : Curve F) (p q : Aff F) : Aff F :=
  let k := c.d * (p.x * q.x) * (p.y * q.y)
  ⟨(p.x * q.y + p.y * q.x) * (1 + k)⁻¹, (p.y * q.y - c.a * (p.x * q.x)) * (1 - k)⁻¹⟩
end Aff

namespace Proj
def zero : Proj F := ⟨0, 1, 1⟩
def ofAff (p : Aff F) : Proj F := ⟨p.x, p.y, 1⟩
/-- `FromProj`: `Z = 0` yields `(0,0)` because `0⁻¹ = 0` -/
def toAff (p : Proj F) : Aff F := ⟨p.X * p.Z⁻¹, p.Y * p.Z⁻¹⟩
def neg (p : Proj F) : Proj F := ⟨-p.X, p.Y, p.Z⟩

/-- add-2008-bbjlp as coded in gnark-crypto -/
def add (c : Curve F) (p q : Proj F) : Proj F :=
  let A := p.Z * q.Z
  let B := A * A
  let C := p.X * q.X
  let D := p.Y * q.Y
  let E := c.d * C * D
  let F' := B - E
  let G := B + E
  let H := p.X + p.Y
  let I := q.X + q.Y
  ⟨(H * I - C - D) * A * F', (D - c.a * C) * A * G, F' * G⟩

/-- madd-2008-bbjlp -/
def mixedAdd (c : Curve F) (p : Proj F) (q : Aff F) : Proj F :=
  let B := p.Z * p.Z
  let C := p.X * q.x
  let D := p.Y * q.y
  let E := c.d * C * D
  let F' := B - E
  let G := B + E
  let H := p.X + p.Y
  let I := q.x + q.y
  ⟨(H * I - C - D) * p.Z * F', (D - c.a * C) * p.Z * G, F' * G⟩

/-- dbl-2008-bbjlp -/
def double (c : Curve F) (p : Proj F) : Proj F :=
  let B := (p.X + p.Y) * (p.X + p.Y)
  let C := p.X * p.X
  let D := p.Y * p.Y
  let E := c.a * C
  let F' := E + D
  let H := p.Z * p.Z
  let J := F' - H - H
  ⟨(B - C - D) * J, (E - D) * F', F' * J⟩
end Proj

namespace Ext
def zero : Ext F := ⟨0, 1, 1, 0⟩
/-- `PointExtendedFromProj` -/
def ofProj (p : Proj F) : Ext F := ⟨p.X, p.Y, p.Z, p.X * p.Y * p.Z⁻¹⟩
def toProj (p : Ext F) : Proj F := ⟨p.X, p.Y, p.Z⟩

/-- add-2008-hwcd -/
def add (c : Curve F) (p q : Ext F) : Ext F :=
  let A := p.X * q.X
  let B := p.Y * q.Y
  let C := p.T * q.T * c.d
  let D := p.Z * q.Z
  let E := (q.X + q.Y) * (p.X + p.Y) - A - B
  let F' := D - C
  let G := D + C
  let H := B - c.a * A
  ⟨E * F', G * H, F' * G, E * H⟩

/-- the repository's `ExtendedAddNormalized` (madd-2008-hwcd, second operand `Z = 1`) -/
def addN (c : Curve F) (p : Ext F) (q : ExtN F) : Ext F :=
  let A := p.X * q.X
  let B := p.Y * q.Y
  let C := p.T * q.T * c.d
  let D := p.Z
  let E := (q.X + q.Y) * (p.X + p.Y) - A - B
  let F' := D - C
  let G := D + C
  let H := B - c.a * A
  ⟨E * F', G * H, F' * G, E * H⟩
end Ext

namespace ExtN
def neg (p : ExtN F) : ExtN F := ⟨-p.X, p.Y, -p.T⟩
def ofAff (p : Aff F) : ExtN F := ⟨p.x, p.y, p.x * p.y⟩
end ExtN

/-- double-and-add, most significant bit first, structural on `fuel` -/
def Proj.nsmulAux (c : Curve F) (p : Proj F) : Nat → Nat → Proj F
  | 0, _ => Proj.zero
  | fuel + 1, n =>
    if n = 0 then Proj.zero
    else
      let h := Proj.double c (Proj.nsmulAux c p fuel (n / 2))
      if n % 2 = 1 then Proj.add c h p else h

/-- reference scalar multiplication: plain double-and-add, no endomorphism -/
def Proj.nsmul (c : Curve F) (n : Nat) (p : Proj F) : Proj F := Proj.nsmulAux c p (n.log2 + 1) n

end

/-! ### Bandersnatch -/

def bandersnatch : Curve Fp where
  a := Zp.ofNat P (P - 5)
  d := Zp.ofNat P 45022363124591815672509500913686876175488063829319466900776701791074614335719

def generatorAff : Aff Fp where
  x := Zp.ofNat P 18886178867200960497001835917649091219057080094937609519140440539760939937304
  y := Zp.ofNat P 19188667384257783945677642223292697773471335439753913231509108946878080696678

end GoIpa
