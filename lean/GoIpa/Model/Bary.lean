/-
  Barycentric machinery on the domain {0,…,N-1} (N = 256 in go-ipa), generic in
  the field: weight tables with their index helpers, barycentric coefficients,
  in-domain division, batch inversion.  Core Lean only.
-/
import GoIpa.Model.Basic
namespace GoIpa

section
variable {F : Type} [Zero F] [One F] [Add F] [Sub F] [Mul F] [Neg F] [Inv F] [NatCast F] [DecidableEq F]

def sumF (l : List F) : F := l.foldl (· + ·) 0
def prodF (l : List F) : F := l.foldl (· * ·) 1

/-- `InnerProd`: `Σ aᵢ bᵢ`, accumulated left to right -/
def innerProd (a b : List F) : F := sumF (List.zipWith (· * ·) a b)

/-- Montgomery batch inversion with zero skipping (`fr.BatchInvert`): mirror of the loop -/
def batchInvert (a : List F) : List F :=
  -- forward pass: prefix products over the non-zero entries
  let fwd := a.foldl (fun (st : List F × F) x =>
      if x = 0 then (st.1 ++ [0], st.2) else (st.1 ++ [st.2], st.2 * x)) ([], 1)
  let accInv := fwd.2⁻¹
  -- backward pass
  let bwd := (List.zip a fwd.1).foldr (fun (xp : F × F) (st : List F × F) =>
      if xp.1 = 0 then (0 :: st.1, st.2) else ((xp.2 * st.2) :: st.1, st.2 * xp.1)) ([], accInv)
  bwd.1

/-- `computeBarycentricWeightForElement`: `A'(i) = ∏_{j≠i} (i - j)` -/
def baryWeight (N i : Nat) : F :=
  prodF (((List.range N).filter (· ≠ i)).map fun (j : Nat) => ((i : F) - (j : F)))

/-- `barycentricWeights`: `A'(0..N-1)` followed by their inverses -/
def baryWeightsTable (N : Nat) : List F :=
  (List.range N).map (baryWeight N) ++ (List.range N).map (fun i => (baryWeight N i : F)⁻¹)

/-- `invertedDomain`: `1/k` for `k = 1..N-1` followed by `-1/k` -/
def invertedDomainTable (N : Nat) : List F :=
  (List.range (N - 1)).map (fun i => (((i + 1 : Nat) : F))⁻¹) ++
  (List.range (N - 1)).map (fun i => (0 : F) - (((i + 1 : Nat) : F))⁻¹)

structure Weights (F : Type) where
  bary : List F
  invDom : List F

def Weights.new (N : Nat) : Weights F := ⟨baryWeightsTable N, invertedDomainTable N⟩

/-- `absInt` -/
def absInt (x : Int) : Nat × Bool := if x < 0 then ((-x).toNat, true) else (x.toNat, false)

/-- `getInvertedElement` -/
def Weights.invertedElement (w : Weights F) (element : Nat) (isNeg : Bool) : F :=
  let index := element - 1
  let index := if isNeg then index + w.invDom.length / 2 else index
  w.invDom.getD index 0

/-- `getRatioOfWeights` -/
def Weights.ratio (w : Weights F) (num den : Nat) : F :=
  w.bary.getD num 0 * w.bary.getD (den + w.bary.length / 2) 0

/-- `ComputeBarycentricCoefficients` -/
def Weights.baryCoeffs (w : Weights F) (N : Nat) (z : F) : List F :=
  let lagr := (List.range N).map fun (i : Nat) => (z - (i : F)) * w.bary.getD i 0
  let total := prodF ((List.range N).map fun (i : Nat) => z - (i : F))
  (batchInvert lagr).map (· * total)

/-- `DivideOnDomain`: evaluation form of `(f - f(k)) / (X - k)` -/
def Weights.divideOnDomain (w : Weights F) (N : Nat) (k : Nat) (f : List F) : List F :=
  let y := f.getD k 0
  -- q_i for i ≠ k
  let q : List F := (List.range N).map fun i =>
    if i = k then 0
    else
      let (absDen, isNeg) := absInt ((i : Int) - (k : Int))
      (f.getD i 0 - y) * w.invertedElement absDen isNeg
  -- q_k accumulates  - Σ_{i≠k} A'(k)/A'(i) · q_i   (left to right)
  let qk : F := (List.range N).foldl (fun acc i =>
    if i = k then acc else acc - w.ratio k i * q.getD i 0) 0
  (List.range N).map fun i => if i = k then qk else q.getD i 0

/-- `common.PowersOf` -/
def powersFrom (x : F) (cur : F) : Nat → List F
  | 0 => []
  | n + 1 => cur :: powersFrom x (cur * x) n

def powersOf (x : F) (n : Nat) : List F := powersFrom x 1 n

end
end GoIpa
