/-
  `parallel.Execute`: the integer prologue and the range loop, plus a small-step
  model of its WaitGroup join.  Core Lean only.
-/
namespace GoIpa

/-- the `for i := 0; i < nbTasks; i++` loop: `cnt` iterations left, index `i`,
`extra` = extraTasks, `off` = extraTasksOffset -/
def rangesLoop (per : Nat) : Nat → Nat → Nat → Nat → List (Nat × Nat)
  | 0, _, _, _ => []
  | cnt + 1, i, extra, off =>
    let s := i * per + off
    if extra > 0 then (s, s + per + 1) :: rangesLoop per cnt (i + 1) (extra - 1) (off + 1)
    else (s, s + per) :: rangesLoop per cnt (i + 1) extra off

/-- the `(start, end)` pairs `Execute(n, work, m)` hands to `work`, in spawn order (`m ≥ 1`) -/
def ranges (n m : Nat) : List (Nat × Nat) :=
  let per := n / m
  if per < 1 then rangesLoop 1 n 0 (n - n * 1) 0
  else rangesLoop per m 0 (n - m * per) 0

/-! ### WaitGroup join protocol

State: workers not yet spawned, workers running, WaitGroup counter, whether the main
goroutine has passed `wg.Wait()`.  `Add(1)` happens before each `go`; `Done()` after `work`. -/
structure JoinState where
  toSpawn : Nat
  running : Nat
  counter : Nat
  returned : Bool
deriving DecidableEq, Repr

inductive JoinStep : JoinState → JoinState → Prop
  | spawn {s} (h : 0 < s.toSpawn) (hr : s.returned = false) :
      JoinStep s { s with toSpawn := s.toSpawn - 1, running := s.running + 1, counter := s.counter + 1 }
  | finish {s} (h : 0 < s.running) :
      JoinStep s { s with running := s.running - 1, counter := s.counter - 1 }
  | wait {s} (h : s.toSpawn = 0) (hc : s.counter = 0) (hr : s.returned = false) :
      JoinStep s { s with returned := true }

def JoinState.init (k : Nat) : JoinState := ⟨k, 0, 0, false⟩

end GoIpa
