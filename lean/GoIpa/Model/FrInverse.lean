/-
  `Element.Inverse` of `bandersnatch/fr` (binary extended Euclid on Montgomery representations,
  "Algorithm 16"): mirror of the loop structure on the 256-bit values of the four working
  vectors `u, v, r, s`.  Multi-limb shifts, additions and subtractions are written on the
  256-bit numbers they implement (wrap-around included).  Core Lean only.
-/
import GoIpa.Model.FrLimbs
import GoIpa.Model.Field
namespace GoIpa.FrInv

def W256 : Nat := 2 ^ 256

/-- `rSquare`: `2^512 mod r` -/
def rSquare : Nat := 4932290691328759802879919559207542894238895193980447506221046538067943049163

/-- the inner loop `for v[0]&1 == 0 { v >>= 1; if s[0]&1 == 1 { s += q }; s >>= 1 }` -/
def halve : Nat → Nat → Nat → Nat × Nat
  | 0, v, s => (v, s)
  | fuel + 1, v, s =>
    if v % 2 = 0 then
      let s := if s % 2 = 1 then (s + R) % W256 else s
      halve fuel (v / 2) (s / 2)
    else (v, s)

/-- `a -= b` on four limbs with the final borrow, then `+= q` when it borrowed -/
def subMod (a b : Nat) : Nat :=
  if a < b then ((a + W256 - b) % W256 + R) % W256 else a - b

/-- the outer loop -/
def loop : Nat → Nat → Nat → Nat → Nat → Nat
  | 0, _, _, _, _ => 0
  | fuel + 1, u, v, r, s =>
    let vs := halve 256 v s
    let ur := halve 256 u r
    let v := vs.1
    let s := vs.2
    let u := ur.1
    let r := ur.2
    -- bigger := v >= u
    if v ≥ u then
      let v := (v + W256 - u) % W256
      let s := subMod s r
      if u = 1 then r else if v = 1 then s else loop fuel u v r s
    else
      let u := (u + W256 - v) % W256
      let r := subMod r s
      if u = 1 then r else if v = 1 then s else loop fuel u v r s

/-- `z.Inverse(x)` on the Montgomery representation `x` (a 256-bit number) -/
def inverseMont (x : Nat) : Nat :=
  if x = 0 then 0 else loop (R + x) R x 0 rSquare

/-- `Inverse` on values: to Montgomery form, the loop, back -/
def inverseValue (a : Fr) : Fr :=
  let x := a.val * W256 % R
  let z := inverseMont x
  Zp.ofNat R (Limbs.fromMontG (Limbs.ofNat z)).val

end GoIpa.FrInv
