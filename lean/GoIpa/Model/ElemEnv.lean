/-
  The external vocabulary of `banderwagon/element.go`, as the element translator
  (`go/cmd/extract/elements.go`) sees it: everything the file calls but does not define —
  gnark-crypto's base-field methods and point formulas, the repository's `fp`/`fr` helpers and
  `fp.SqrtPrecomp` — is a field of this structure.  The tie theorems
  (`Tie/Elements.lean`) instantiate it with the model's functions.  Core Lean only.
-/
import GoIpa.Model.Curve
namespace GoIpa

structure ElemEnv (K S : Type) where
  /-- `bandersnatch.CurveParams.A`, `.D` -/
  a : K
  d : K
  /-- `fp.Element.LexicographicallyLargest` -/
  lex : K → Bool
  /-- `fp.Element.Legendre` -/
  legendre : K → Int
  /-- `fp.Element.Bytes` (32 bytes, big-endian) -/
  encBE : K → Bytes
  /-- `fp.BytesLE` -/
  encLE : K → Bytes
  /-- `fp.Element.SetBytesCanonical` (`none` = error) -/
  decCanon : Bytes → Option K
  /-- `fp.Element.SetBytes` (reducing) -/
  decReduce : Bytes → K
  /-- `PointAffine.FromProj` -/
  fromProj : Proj K → Aff K
  /-- `fp.SqrtPrecomp` (`none` = nil) -/
  sqrt : K → Option K
  /-- `fp.BatchInvert` -/
  batchInvert : List K → List K
  /-- `PointProj.Add`, `.Double`, `.Neg`, `.MixedAdd`, `.ScalarMultiplication` -/
  pAdd : Proj K → Proj K → Proj K
  pDouble : Proj K → Proj K
  pNeg : Proj K → Proj K
  pMixedAdd : Proj K → Aff K → Proj K
  pScalarMul : Proj K → Nat → Proj K
  /-- `PointAffine.IsOnCurve` -/
  affOnCurve : Aff K → Bool
  /-- `fr.Element.SetBytesLE` -/
  frOfLE : Bytes → S
  /-- `fr.Element.ToBigIntRegular` -/
  valS : S → Nat

namespace Loop
/-- `copy(dst[off:], src)` on a byte array -/
def copyAt (dst : Bytes) (off : Int) (src : Bytes) : Bytes :=
  let o := off.toNat
  dst.take o ++ (src.take (dst.length - o)) ++ dst.drop (o + src.length)
end Loop

end GoIpa
