/-
  Square roots in the base field.
  * `Fp.sqrtRef`  : textbook Tonelli–Shanks (the independent reference).
  * `Fp.sqrtPrecomp` : mirror of `bandersnatch/fp/sqrt.go` (addition chain result
    `v^((Q-1)/2)`, 8-bit dlog blocks, LUT keyed on the low 16 bits of the
    Montgomery limb, halving, reconstruction from precomputed blocks).
  Core Lean only.
-/
import GoIpa.Model.Field
namespace GoIpa

/-- `P - 1 = Qodd * 2^32` -/
def Qodd : Nat := (P - 1) / 2^32

/-- least `i ≤ fuel` with `t^(2^i) = 1` (returns `fuel` when none) -/
def orderLog2 (t : Fp) : Nat → Nat
  | 0 => 0
  | fuel + 1 => if t.val = 1 then 0 else 1 + orderLog2 (t * t) fuel

def tsLoop : Nat → Nat → Fp → Fp → Fp → Option Fp
  | 0, _, _, _, _ => none
  | fuel + 1, m, c, t, r =>
    if t.val = 1 then some r
    else
      let i := orderLog2 t m
      if i ≥ m then none
      else
        let b := c ^ (2 ^ (m - i - 1))
        tsLoop fuel i (b * b) (t * (b * b)) (r * b)

/-- Tonelli–Shanks with the non-residue 7 -/
def Fp.sqrtRef (v : Fp) : Option Fp :=
  if v.val = 0 then some 0
  else if (v ^ ((P - 1) / 2)).val ≠ 1 then none
  else tsLoop 34 32 ((Zp.ofNat P 7) ^ Qodd) (v ^ Qodd) (v ^ ((Qodd + 1) / 2))

/-! ### mirror of the table-driven algorithm -/

/-- the primitive 2^32-th root of unity hard-coded in `sqrt.go` -/
def dyadicRoot : Fp := Zp.ofNat P 10238227357739495823651030575849232062558860180284477541189508159991286009131

/-- `sqrtPrecomp_PrimitiveDyadicRoots[i] = g^(2^i)` -/
def dyadicRoots (i : Nat) : Fp := dyadicRoot ^ (2 ^ i)

/-- `sqrtPrecomp_ReconstructionDyadicRoot`, order 2^8 -/
def g8 : Fp := dyadicRoots 24

/-- `sqrtPrecomp_PrecomputedBlocks[i][j] = g^(j << 8i)` -/
def precompBlock (i j : Nat) : Fp := (dyadicRoots (8 * i)) ^ j

/-- the LUT key: low 16 bits of the first Montgomery limb -/
def montKey (x : Fp) : Nat := (x.val * 2^256 % P) % 65536

/-- `sqrtPrecomp_dlogLUT` as an association list `key ↦ (-i) & 255`, later entries win -/
def dlogLUT : List (Nat × Nat) :=
  (List.range 256).map fun i => (montKey (g8 ^ i), (256 - i) % 256)

def dlogArray : Array Nat := Id.run do
  let mut a := Array.replicate 65536 0
  for (k, v) in dlogLUT do
    a := a.set! k v
  return a

/-- Go map lookup: missing key gives 0 -/
def negDlogSmall (lut : Array Nat) (x : Fp) : Nat := lut[montKey x]!

def sq8 (x : Fp) : Fp := Id.run do
  let mut y := x
  for _ in [0:8] do y := y * y
  return y

/-- mirror of `invSqrtEqDyadic`: `none` when the dlog is odd, else the new `z` -/
def invSqrtEqDyadic (lut : Array Nat) (z : Fp) : Option Fp := Id.run do
  let p0 := z
  let p1 := sq8 p0
  let p2 := sq8 p1
  let p3 := sq8 p2
  let powers := #[p0, p1, p2, p3]
  let mut negExp := negDlogSmall lut p3
  if negExp % 2 = 1 then return none
  for i in [1:4] do
    let mut t2 := powers[3 - i]!
    for j in [0:i] do
      t2 := t2 * precompBlock (j + 3 - i) ((negExp >>> (8 * j)) % 256)
    let newBits := negDlogSmall lut t2
    negExp := negExp ||| (newBits <<< (8 * i))
  negExp := negExp >>> 1
  let mut r : Fp := 1
  for i in [0:4] do
    r := r * precompBlock i ((negExp >>> (8 * i)) % 256)
  return some r

/-- mirror of `SqrtPrecomp` -/
def Fp.sqrtPrecomp (lut : Array Nat) (v : Fp) : Option Fp :=
  if v.val = 0 then some 0
  else
    let acc := v ^ ((Qodd - 1) / 2)
    let rootOfUnity := acc * acc * v
    let candidate := acc * v
    match invSqrtEqDyadic lut rootOfUnity with
    | none => none
    | some z => some (candidate * z)

end GoIpa
