/-
  Square roots in the base field.
  * `Fp.sqrtRef`  : textbook Tonelli–Shanks (the independent reference).
  * `Fp.sqrtPrecomp` : mirror of `bandersnatch/fp/sqrt.go` (addition chain result
    `v^((Q-1)/2)`, 8-bit dlog blocks, LUT keyed on the low 16 bits of the
    Montgomery limb, halving, reconstruction from precomputed blocks).
  Core Lean only.
-/
import GoIpa.Model.Field
namespace GoIpa

/-- `P - 1 = Qodd * 2^32` -/
def Qodd : Nat := (P - 1) / 2^32

/-- least `i ≤ fuel` with `t^(2^i) = 1` (returns `fuel` when none) -/
def orderLog2 (t : Fp) : Nat → Nat
  | 0 => 0
  | fuel + 1 => if t.val = 1 then 0 else 1 + orderLog2 (t * t) fuel

def tsLoop : Nat → Nat → Fp → Fp → Fp → Option Fp
  | 0, _, _, _, _ => none
  | fuel + 1, m, c, t, r =>
    if t.val = 1 then some r
    else
      let i := orderLog2 t m
      if i ≥ m then none
      else
        let b := c ^ (2 ^ (m - i - 1))
        tsLoop fuel i (b * b) (t * (b * b)) (r * b)

/-- Tonelli–Shanks with the non-residue 7 -/
def Fp.sqrtRef (v : Fp) : Option Fp :=
  if v.val = 0 then some 0
  else if (v ^ ((P - 1) / 2)).val ≠ 1 then none
  else tsLoop 34 32 ((Zp.ofNat P 7) ^ Qodd) (v ^ Qodd) (v ^ ((Qodd + 1) / 2))

/-! ### mirror of the table-driven algorithm -/

/-- the primitive 2^32-th root of unity hard-coded in `sqrt.go` -/
def dyadicRoot : Fp := Zp.ofNat P 10238227357739495823651030575849232062558860180284477541189508159991286009131

/-- `sqrtPrecomp_PrimitiveDyadicRoots[i] = g^(2^i)` -/
def dyadicRoots (i : Nat) : Fp := dyadicRoot ^ (2 ^ i)

/-- `sqrtPrecomp_ReconstructionDyadicRoot`, order 2^8 -/
def g8 : Fp := dyadicRoots 24

/-- `sqrtPrecomp_PrecomputedBlocks[i][j] = g^(j << 8i)` -/
def precompBlock (i j : Nat) : Fp := (dyadicRoots (8 * i)) ^ j

/-- the LUT key: low 16 bits of the first Montgomery limb -/
def montKey (x : Fp) : Nat := (x.val * 2^256 % P) % 65536

/-- `sqrtPrecomp_dlogLUT` as an association list `key ↦ (-i) & 255`, later entries win -/
def dlogLUT : List (Nat × Nat) :=
  (List.range 256).map fun i => (montKey (g8 ^ i), (256 - i) % 256)

/-- Go map lookup on the 256-entry table (the keys are pairwise distinct, `C17.lut_keys_distinct`);
a missing key gives 0 -/
def negDlogSmall (x : Fp) : Nat :=
  ((dlogLUT.find? (fun e => e.1 == montKey x)).map (·.2)).getD 0

/-- `n` squarings -/
def sqTimes : Nat → Fp → Fp
  | 0, x => x
  | n + 1, x => sqTimes n (x * x)

def sq8 (x : Fp) : Fp := sqTimes 8 x

/-- `Π_{j<cnt} blocks[j + off][(n >> 8j) & 255]`, multiplied onto `acc` in the order of the loop -/
def mulBlocks (n off : Nat) : Nat → Nat → Fp → Fp
  | 0, _, acc => acc
  | cnt + 1, j, acc => mulBlocks n off cnt (j + 1) (acc * precompBlock (j + off) ((n >>> (8 * j)) % 256))

/-- mirror of `invSqrtEqDyadic`: `none` when the dlog is odd, else the new `z` -/
def invSqrtEqDyadic (z : Fp) : Option Fp :=
  let p0 := z
  let p1 := sq8 p0
  let p2 := sq8 p1
  let p3 := sq8 p2
  let n0 := negDlogSmall p3
  if n0 % 2 = 1 then none
  else
    let n1 := n0 ||| (negDlogSmall (mulBlocks n0 2 1 0 p2) <<< 8)
    let n2 := n1 ||| (negDlogSmall (mulBlocks n1 1 2 0 p1) <<< 16)
    let n3 := n2 ||| (negDlogSmall (mulBlocks n2 0 3 0 p0) <<< 24)
    some (mulBlocks (n3 >>> 1) 0 4 0 1)

/-- mirror of `SqrtPrecomp` -/
def Fp.sqrtPrecomp (v : Fp) : Option Fp :=
  if v.val = 0 then some 0
  else
    let acc := v ^ ((Qodd - 1) / 2)
    let rootOfUnity := acc * acc * v
    let candidate := acc * v
    match invSqrtEqDyadic rootOfUnity with
    | none => none
    | some z => some (candidate * z)

end GoIpa
