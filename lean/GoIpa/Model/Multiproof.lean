/-
  The Verkle multiproof: prover (with the implementation's worker split of the
  grouping step, for an arbitrary worker count and arrival order) and verifier.
  Generic in field, group, hash and encoders.  Core Lean only.
-/
import GoIpa.Model.Ipa
namespace GoIpa

section
variable {F G : Type} [Zero F] [One F] [Add F] [Sub F] [Mul F] [Neg F] [Inv F] [NatCast F] [DecidableEq F]
variable [Zero G] [Add G] [Sub G] [SMul F G]

def addVec (a b : List F) : List F := List.zipWith (· + ·) a b
def scaleVec (c : F) (a : List F) : List F := a.map (c * ·)

/-- a per-evaluation-point table: entry `z` is `none` while no opening uses `z` -/
abbrev Groups (F : Type) := List (Option (List F))

def Groups.empty (N : Nat) : Groups F := List.replicate N none

/-- add `r • f` into group `z` (allocating a zero vector first, as the worker does) -/
def Groups.accum (N : Nat) (g : Groups F) (z : Nat) (r : F) (f : List F) : Groups F :=
  g.set z (some (addVec ((g.getD z none).getD (List.replicate N 0)) (scaleVec r f)))

/-- one worker: openings `[start, end)` in order -/
def workerGroups (N : Nat) (fs : List (List F)) (pows : List F) (zs : List Nat) (start stop : Nat) : Groups F :=
  ((List.range (min stop fs.length - start)).map (· + start)).foldl
    (fun g i => Groups.accum N g (zs.getD i 0) (pows.getD i 0) (fs.getD i [])) (Groups.empty N)

/-- merge one worker's table into the aggregate: first sighting reuses the worker's
vector, later ones are added coordinate-wise -/
def mergeGroups (agg wk : Groups F) : Groups F :=
  List.zipWith (fun a w => match w, a with
    | none, a => a
    | some v, none => some v
    | some v, some u => some (addVec u v)) agg wk

/-- `groupPolynomialsByEvaluationPoint` with `w` workers whose results arrive in `order` -/
def groupPolys (N : Nat) (fs : List (List F)) (pows : List F) (zs : List Nat) (w : Nat) (order : List Nat) : Groups F :=
  let batch := (fs.length + w - 1) / w
  order.foldl (fun agg i => mergeGroups agg (workerGroups N fs pows zs (i * batch) ((i + 1) * batch)))
    (Groups.empty N)

structure MultiProof (F G : Type) where
  ipa : IpaProof F G
  D : G

variable (enc : Enc F G)

/-- `CreateMultiProof` after its shape checks (`Cs`, `fs`, `zs` equally long, non-empty,
each `f` of length `N`); `zs` are domain indices -/
def mpProve (cfg : IpaCfg F G) (tr : Tr) (Cs : List G) (fs : List (List F)) (zs : List Nat)
    (w : Nat := 1) (order : List Nat := [0]) : Option (MultiProof F G) × Tr :=
  let N := cfg.N
  let tr := tr.domainSep Label.multiproof
  let tr := (List.zip Cs (List.zip fs zs)).foldl (fun (tr : Tr) (e : G × List F × Nat) =>
      let tr := tr.appendPoint enc e.1 Label.C
      let tr := tr.appendScalar enc ((e.2.2 : Nat) : F) Label.z
      tr.appendScalar enc (e.2.1.getD e.2.2 0) Label.y) tr
  let (r, tr) := tr.challenge enc Label.r
  let pows := powersOf r Cs.length
  let groups := groupPolys N fs pows zs w order
  -- g(X) = Σ_z (grouped_z − grouped_z(z)) / (X − z)
  let g := (List.zipIdx groups).foldl (fun (g : List F) (e : Option (List F) × Nat) =>
      (e.1.map fun f => addVec g (cfg.weights.divideOnDomain N e.2 f)).getD g) (List.replicate N 0)
  let D := msm cfg.srs g
  let tr := tr.appendPoint enc D Label.D
  let (t, tr) := tr.challenge enc Label.t
  -- denominators for the referenced points only, compacted
  let dens := (List.zipIdx groups).filterMap (fun (e : Option (List F) × Nat) =>
      e.1.map fun _ => t - ((e.2 : Nat) : F))
  let denInv := batchInvert dens
  let used := groups.filterMap id
  let h := (List.zip used denInv).foldl (fun (h : List F) (e : List F × F) =>
      addVec h (e.1.map (· * e.2))) (List.replicate N 0)
  let hMinusG := List.zipWith (· - ·) h g
  let E := msm cfg.srs h
  let tr := tr.appendPoint enc E Label.E
  let (p, tr) := ipaProve enc cfg tr (E - D) hMinusG t
  (p.map (fun ip => ⟨ip, D⟩), tr)

/-- `CheckMultiProof` -/
def mpVerify (cfg : IpaCfg F G) (tr : Tr) (proof : MultiProof F G) (Cs : List G) (ys : List F) (zs : List Nat) :
    Except VErr Bool × Tr :=
  let N := cfg.N
  let tr := tr.domainSep Label.multiproof
  if Cs.length ≠ ys.length then (.error .lenCY, tr)
  else if Cs.length ≠ zs.length then (.error .lenCZ, tr)
  else if Cs.length = 0 then (.error .zeroQueries, tr)
  else
    let tr := (List.zip Cs (List.zip ys zs)).foldl (fun (tr : Tr) (e : G × F × Nat) =>
        let tr := tr.appendPoint enc e.1 Label.C
        let tr := tr.appendScalar enc ((e.2.2 : Nat) : F) Label.z
        tr.appendScalar enc e.2.1 Label.y) tr
    let (r, tr) := tr.challenge enc Label.r
    let pows := powersOf r Cs.length
    let tr := tr.appendPoint enc proof.D Label.D
    let (t, tr) := tr.challenge enc Label.t
    let groupedEvals := (List.zip pows (List.zip ys zs)).foldl (fun (ge : List F) (e : F × F × Nat) =>
        ge.set e.2.2 (ge.getD e.2.2 0 + e.1 * e.2.1)) (List.replicate N 0)
    let denInv := batchInvert ((List.range N).map fun (i : Nat) => t - (i : F))
    let g2 := (List.zip groupedEvals denInv).foldl (fun (acc : F) (e : F × F) =>
        if e.1 = 0 then acc else acc + e.1 * e.2) 0
    let scalars := List.zipWith (fun (p : F) (z : Nat) => p * denInv.getD z 0) pows zs
    let E := msm Cs scalars
    let tr := tr.appendPoint enc E Label.E
    ipaVerify enc cfg tr (E - proof.D) proof.ipa t g2

end
end GoIpa
