/-
  The Fiat–Shamir transcript.  `Tr` mirrors the implementation (a running hash,
  represented by the bytes written to it since the last reset, and a pending
  buffer); `SpecTr` is the specification (one byte stream).  The hash and the
  encoders are parameters (`Enc`), so every statement holds for any hash.
  Core Lean only.
-/
import GoIpa.Model.Basic
namespace GoIpa

/-- encoders and the hash-to-field function; `eqG` is the group's equality test -/
structure Enc (F G : Type) where
  ptBytes : G → Bytes
  scBytes : F → Bytes
  chal : Bytes → F
  eqG : G → G → Bool

structure Tr where
  hashed : Bytes
  buf : Bytes
deriving DecidableEq, Repr

namespace Tr
def new (label : Bytes) : Tr := ⟨label, []⟩
def domainSep (t : Tr) (label : Bytes) : Tr := { t with buf := t.buf ++ label }
def appendMessage (t : Tr) (msg label : Bytes) : Tr := { t with buf := (t.buf ++ label) ++ msg }

variable {F G : Type} (enc : Enc F G)
def appendScalar (t : Tr) (s : F) (label : Bytes) : Tr := t.appendMessage (enc.scBytes s) label
def appendPoint (t : Tr) (p : G) (label : Bytes) : Tr := t.appendMessage (enc.ptBytes p) label

/-- `ChallengeScalar`: absorb label, flush buffer into the hash, squeeze, reset, re-absorb -/
def challenge (t : Tr) (label : Bytes) : F × Tr :=
  let t1 := t.domainSep label
  let written := t1.hashed ++ t1.buf
  let c := enc.chal written
  (c, (⟨[], []⟩ : Tr).appendScalar enc c label)
end Tr

/-- the specification: one stream -/
structure SpecTr where
  stream : Bytes
deriving DecidableEq, Repr

namespace SpecTr
def new (label : Bytes) : SpecTr := ⟨label⟩
def domainSep (t : SpecTr) (label : Bytes) : SpecTr := ⟨t.stream ++ label⟩
def appendMessage (t : SpecTr) (msg label : Bytes) : SpecTr := ⟨t.stream ++ label ++ msg⟩
variable {F G : Type} (enc : Enc F G)
def challenge (t : SpecTr) (label : Bytes) : F × SpecTr :=
  let c := enc.chal (t.stream ++ label)
  (c, ⟨label ++ enc.scBytes c⟩)
end SpecTr

/-- transcript operations as data (for histories) -/
inductive TrOp (F G : Type)
  | domainSep (label : Bytes)
  | message (msg label : Bytes)
  | scalar (s : F) (label : Bytes)
  | point (p : G) (label : Bytes)
  | challenge (label : Bytes)

variable {F G : Type} (enc : Enc F G)

def Tr.step (t : Tr) : TrOp F G → Tr × Option F
  | .domainSep l => (t.domainSep l, none)
  | .message m l => (t.appendMessage m l, none)
  | .scalar s l => (t.appendScalar enc s l, none)
  | .point p l => (t.appendPoint enc p l, none)
  | .challenge l => let (c, t') := t.challenge enc l; (t', some c)

def SpecTr.step (t : SpecTr) : TrOp F G → SpecTr × Option F
  | .domainSep l => (t.domainSep l, none)
  | .message m l => (t.appendMessage m l, none)
  | .scalar s l => (t.appendMessage (enc.scBytes s) l, none)
  | .point p l => (t.appendMessage (enc.ptBytes p) l, none)
  | .challenge l => let (c, t') := t.challenge enc l; (t', some c)

/-- run a history, collecting the challenges -/
def Tr.run (t : Tr) : List (TrOp F G) → List F × Tr
  | [] => ([], t)
  | op :: ops =>
    let (t', o) := t.step enc op
    let (cs, tf) := Tr.run t' ops
    (match o with | some c => c :: cs | none => cs, tf)

def SpecTr.run (t : SpecTr) : List (TrOp F G) → List F × SpecTr
  | [] => ([], t)
  | op :: ops =>
    let (t', o) := t.step enc op
    let (cs, tf) := SpecTr.run t' ops
    (match o with | some c => c :: cs | none => cs, tf)

end GoIpa
