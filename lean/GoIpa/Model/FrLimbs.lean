/-
  Limb-level model of the portable scalar-field arithmetic (`bandersnatch/fr/element.go`,
  `arith.go`): 4 limbs of 64 bits, `math/bits` primitives as functions on naturals.
  Core Lean only.
-/
namespace GoIpa.Limbs

def W : Nat := 18446744073709551616  -- 2^64

def q0 : Nat := 8429901452645165025
def q1 : Nat := 18415085837358793841
def q2 : Nat := 922804724659942912
def q3 : Nat := 2088379214866112338
/-- `-q⁻¹ mod 2^64` -/
def qInvNeg : Nat := 17410672245482742751

structure L4 where
  l0 : Nat
  l1 : Nat
  l2 : Nat
  l3 : Nat
deriving DecidableEq, Repr

def L4.val (z : L4) : Nat := z.l0 + W * z.l1 + W * W * z.l2 + W * W * W * z.l3
def L4.ok (z : L4) : Prop := z.l0 < W ∧ z.l1 < W ∧ z.l2 < W ∧ z.l3 < W

def qL : L4 := ⟨q0, q1, q2, q3⟩

/-- `bits.Add64` -/
def add64 (x y c : Nat) : Nat × Nat := ((x + y + c) % W, (x + y + c) / W)
/-- `bits.Sub64` -/
def sub64 (x y b : Nat) : Nat × Nat := ((x + W + W - y - b) % W, if x < y + b then 1 else 0)
/-- `bits.Mul64`: (hi, lo) -/
def mul64 (x y : Nat) : Nat × Nat := ((x * y) / W, (x * y) % W)

/-- the lexicographic test `z < q` of the generated code -/
def ltQ (z : L4) : Prop :=
  z.l3 < q3 ∨ (z.l3 = q3 ∧ (z.l2 < q2 ∨ (z.l2 = q2 ∧ (z.l1 < q1 ∨ (z.l1 = q1 ∧ z.l0 < q0)))))

instance (z : L4) : Decidable (ltQ z) := by unfold ltQ; infer_instance

/-- `z -= q` with borrow chain -/
def subQ (z : L4) : L4 :=
  let (a0, b) := sub64 z.l0 q0 0
  let (a1, b) := sub64 z.l1 q1 b
  let (a2, b) := sub64 z.l2 q2 b
  let (a3, _) := sub64 z.l3 q3 b
  ⟨a0, a1, a2, a3⟩

/-- `_reduceGeneric`: `if !(z < q) { z -= q }` -/
def reduceG (z : L4) : L4 := if ltQ z then z else subQ z

/-- `_addGeneric` -/
def addG (x y : L4) : L4 :=
  let (z0, c) := add64 x.l0 y.l0 0
  let (z1, c) := add64 x.l1 y.l1 c
  let (z2, c) := add64 x.l2 y.l2 c
  let (z3, _) := add64 x.l3 y.l3 c
  reduceG ⟨z0, z1, z2, z3⟩

/-- `_doubleGeneric` -/
def doubleG (x : L4) : L4 := addG x x

/-- `_subGeneric` -/
def subG (x y : L4) : L4 :=
  let (z0, b) := sub64 x.l0 y.l0 0
  let (z1, b) := sub64 x.l1 y.l1 b
  let (z2, b) := sub64 x.l2 y.l2 b
  let (z3, b) := sub64 x.l3 y.l3 b
  if b ≠ 0 then
    let (a0, c) := add64 z0 q0 0
    let (a1, c) := add64 z1 q1 c
    let (a2, c) := add64 z2 q2 c
    let (a3, _) := add64 z3 q3 c
    ⟨a0, a1, a2, a3⟩
  else ⟨z0, z1, z2, z3⟩

/-- `_negGeneric` -/
def negG (x : L4) : L4 :=
  if x.l0 = 0 ∧ x.l1 = 0 ∧ x.l2 = 0 ∧ x.l3 = 0 then ⟨0, 0, 0, 0⟩
  else
    let (z0, b) := sub64 q0 x.l0 0
    let (z1, b) := sub64 q1 x.l1 b
    let (z2, b) := sub64 q2 x.l2 b
    let (z3, _) := sub64 q3 x.l3 b
    ⟨z0, z1, z2, z3⟩

/-- `madd0`: hi of `a*b + c` -/
def madd0 (a b c : Nat) : Nat :=
  let (hi, lo) := mul64 a b
  let (_, carry) := add64 lo c 0
  (add64 hi 0 carry).1
/-- `madd1`: (hi, lo) of `a*b + c` -/
def madd1 (a b c : Nat) : Nat × Nat :=
  let (hi, lo) := mul64 a b
  let (lo, carry) := add64 lo c 0
  ((add64 hi 0 carry).1, lo)
/-- `madd2`: (hi, lo) of `a*b + c + d` -/
def madd2 (a b c d : Nat) : Nat × Nat :=
  let (hi, lo) := mul64 a b
  let (c, carry) := add64 c d 0
  let hi := (add64 hi 0 carry).1
  let (lo, carry) := add64 lo c 0
  ((add64 hi 0 carry).1, lo)
/-- `madd3`: (hi, lo) of `a*b + c + d + e·2^64` -/
def madd3 (a b c d e : Nat) : Nat × Nat :=
  let (hi, lo) := mul64 a b
  let (c, carry) := add64 c d 0
  let hi := (add64 hi 0 carry).1
  let (lo, carry) := add64 lo c 0
  ((add64 hi e carry).1, lo)

/-- one round of the CIOS Montgomery multiplication in `_mulGeneric`
(`first = true` for round 0, which starts from `t = 0`) -/
def mulRound (v : Nat) (y t : L4) (first : Bool) : L4 :=
  let (c1, c0) := if first then mul64 v y.l0 else madd1 v y.l0 t.l0
  let m := (c0 * qInvNeg) % W
  let c2 := madd0 m q0 c0
  let (c1, c0) := if first then madd1 v y.l1 c1 else madd2 v y.l1 c1 t.l1
  let (c2, t0) := madd2 m q1 c2 c0
  let (c1, c0) := if first then madd1 v y.l2 c1 else madd2 v y.l2 c1 t.l2
  let (c2, t1) := madd2 m q2 c2 c0
  let (c1, c0) := if first then madd1 v y.l3 c1 else madd2 v y.l3 c1 t.l3
  let (t3, t2) := madd3 m q3 c0 c2 c1
  ⟨t0, t1, t2, t3⟩

/-- `_mulGeneric` -/
def mulG (x y : L4) : L4 :=
  let t := mulRound x.l0 y ⟨0, 0, 0, 0⟩ true
  let t := mulRound x.l1 y t false
  let t := mulRound x.l2 y t false
  let t := mulRound x.l3 y t false
  reduceG t

/-- one round of `_fromMontGeneric` -/
def fromMontRound (z : L4) : L4 :=
  let m := (z.l0 * qInvNeg) % W
  let c := madd0 m q0 z.l0
  let (c, z0) := madd2 m q1 z.l1 c
  let (c, z1) := madd2 m q2 z.l2 c
  let (c, z2) := madd2 m q3 z.l3 c
  ⟨z0, z1, z2, c⟩

/-- `_fromMontGeneric` -/
def fromMontG (z : L4) : L4 := reduceG (fromMontRound (fromMontRound (fromMontRound (fromMontRound z))))

def ofNat (n : Nat) : L4 := ⟨n % W, n / W % W, n / (W * W) % W, n / (W * W * W) % W⟩

end GoIpa.Limbs
