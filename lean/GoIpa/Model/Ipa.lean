/-
  The inner-product argument: prover and verifier, generic in the field `F`,
  the group `G` (with `•`), the hash and the encoders.  The multi-scalar
  multiplication is its specification `Σ sᵢ • Pᵢ` (the two MSM engines are
  related to it in `Precomp`/`Pippenger`).  Core Lean only.
-/
import GoIpa.Model.Transcript
import GoIpa.Model.Bary
namespace GoIpa

/-- bytes of an ASCII string (all labels of the protocol are ASCII) -/
def str (s : String) : Bytes := s.toList.map fun c => UInt8.ofNat c.toNat

namespace Label
def ipa := str "ipa"
def C := str "C"
def inputPoint := str "input point"
def outputPoint := str "output point"
def w := str "w"
def L := str "L"
def R := str "R"
def x := str "x"
def multiproof := str "multiproof"
def z := str "z"
def y := str "y"
def D := str "D"
def E := str "E"
def t := str "t"
def r := str "r"
end Label

section
variable {F G : Type} [Zero F] [One F] [Add F] [Sub F] [Mul F] [Neg F] [Inv F] [NatCast F] [DecidableEq F]
variable [Zero G] [Add G] [Sub G] [SMul F G]

/-- `Σ sᵢ • Pᵢ` — specification of both MSM engines -/
def msm (ps : List G) (ss : List F) : G :=
  (List.zipWith (fun (s : F) (p : G) => s • p) ss ps).foldl (· + ·) 0

/-- `foldScalars`: `aᵢ + x bᵢ` -/
def foldScalars (a b : List F) (x : F) : List F := List.zipWith (fun ai bi => x * bi + ai) a b

/-- `foldPoints`: `x • bᵢ + aᵢ` -/
def foldPoints (a b : List G) (x : F) : List G := List.zipWith (fun ai bi => x • bi + ai) a b

structure IpaProof (F G : Type) where
  L : List G
  R : List G
  a : F

/-- parameters shared by prover and verifier -/
structure IpaCfg (F G : Type) where
  srs : List G
  Q : G
  weights : Weights F
  N : Nat            -- vector length (256)
  rounds : Nat       -- log₂ N (8)
  /-- `some i` iff the evaluation point is the domain element `i ≤ N-1` -/
  inDomain : F → Option Nat

variable (enc : Enc F G)

/-- `computeBVector` -/
def bVector (cfg : IpaCfg F G) (z : F) : List F :=
  match cfg.inDomain z with
  | none => cfg.weights.baryCoeffs cfg.N z
  | some i => (List.range cfg.N).map fun j => if j = i then 1 else 0

/-- the folding rounds of `CreateIPAProof` -/
def ipaRounds (q : G) : Nat → Tr → List F → List F → List G → (List G × List G × List F × Tr)
  | 0, tr, a, _, _ => ([], [], a, tr)
  | n + 1, tr, a, b, g =>
    let m := a.length / 2
    let aL := a.take m; let aR := a.drop m
    let bL := b.take m; let bR := b.drop m
    let gL := g.take m; let gR := g.drop m
    let zL := innerProd aR bL
    let zR := innerProd aL bR
    let cL := msm gL aR + zL • q
    let cR := msm gR aL + zR • q
    let tr := tr.appendPoint enc cL Label.L
    let tr := tr.appendPoint enc cR Label.R
    let (x, tr) := tr.challenge enc Label.x
    let xInv := x⁻¹
    let (Ls, Rs, af, tr) := ipaRounds q n tr (foldScalars aL aR x) (foldScalars bL bR xInv) (foldPoints gL gR xInv)
    (cL :: Ls, cR :: Rs, af, tr)

/-- `CreateIPAProof` (the implementation's only error, a final vector not of length one,
is reported as `none`) -/
def ipaProve (cfg : IpaCfg F G) (tr : Tr) (commitment : G) (a : List F) (z : F) : Option (IpaProof F G) × Tr :=
  let tr := tr.domainSep Label.ipa
  let b := bVector cfg z
  let ip := innerProd a b
  let tr := tr.appendPoint enc commitment Label.C
  let tr := tr.appendScalar enc z Label.inputPoint
  let tr := tr.appendScalar enc ip Label.outputPoint
  let (w, tr) := tr.challenge enc Label.w
  let q := w • cfg.Q
  let (Ls, Rs, af, tr) := ipaRounds enc q cfg.rounds tr a b cfg.srs
  match af with
  | [a0] => (some ⟨Ls, Rs, a0⟩, tr)
  | _ => (none, tr)

/-- `generateChallenges` -/
def genChallenges : Tr → List G → List G → (List F × Tr)
  | tr, l :: ls, r :: rs =>
    let tr := tr.appendPoint enc l Label.L
    let tr := tr.appendPoint enc r Label.R
    let (x, tr) := tr.challenge enc Label.x
    let (xs, tr) := genChallenges tr ls rs
    (x :: xs, tr)
  | tr, _, _ => ([], tr)

/-- the verifier's folding scalar for index `i`: product of `xInvⱼ` over the set bits
`k-1-j` of `i` (the code hard-wires `7-j`) -/
def foldingScalar (k : Nat) (xInvs : List F) (i : Nat) : F :=
  (List.zipIdx xInvs).foldl (fun acc (xj : F × Nat) =>
    if i &&& (1 <<< (k - 1 - xj.2)) > 0 then acc * xj.1 else acc) 1

inductive VErr | lenLR | rounds | lenCY | lenCZ | zeroQueries
deriving DecidableEq, Repr

/-- `CheckIPAProof` -/
def ipaVerify (cfg : IpaCfg F G) (tr : Tr) (commitment : G) (proof : IpaProof F G) (z y : F) :
    Except VErr Bool × Tr :=
  let tr := tr.domainSep Label.ipa
  if proof.L.length ≠ proof.R.length then (.error .lenLR, tr)
  else if proof.L.length ≠ cfg.rounds then (.error .rounds, tr)
  else
    let b := bVector cfg z
    let tr := tr.appendPoint enc commitment Label.C
    let tr := tr.appendScalar enc z Label.inputPoint
    let tr := tr.appendScalar enc y Label.outputPoint
    let (w, tr) := tr.challenge enc Label.w
    let q := w • cfg.Q
    let c0 := commitment + y • q
    let (xs, tr) := genChallenges enc tr proof.L proof.R
    let xInvs := batchInvert xs
    let c := (List.zip xs (List.zip xInvs (List.zip proof.L proof.R))).foldl
      (fun (c : G) (e : F × F × G × G) => c + e.1 • e.2.2.1 + e.2.1 • e.2.2.2) c0
    let fs := (List.range cfg.srs.length).map (foldingScalar cfg.rounds xInvs)
    let g0 := msm cfg.srs fs
    let b0 := innerProd b fs
    let got := proof.a • g0 + (b0 * proof.a) • q
    (.ok (enc.eqG got c), tr)

end
end GoIpa
