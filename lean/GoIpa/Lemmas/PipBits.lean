/-
  Bit-level facts for the variable-base MSM: what a word selector reads, what the recoder
  writes, and that reading back the written digits returns them.
-/
import Mathlib.Tactic.Ring
import Mathlib.Tactic.IntervalCases
import Mathlib.Tactic.NormNum
import GoIpa.Lemmas.Pippenger
namespace GoIpa.PipBits
open GoIpa

/-- value of a 4-limb word vector -/
def num (q : List Nat) : Nat :=
  q.getD 0 0 + 2 ^ 64 * q.getD 1 0 + 2 ^ 128 * q.getD 2 0 + 2 ^ 192 * q.getD 3 0

theorem mask64_eq : mask64 = 2 ^ 64 - 1 := rfl

theorem shl_one_sub (c : Nat) : (1 <<< c) - 1 = 2 ^ c - 1 := by rw [Nat.one_shiftLeft]

/-- the masked, shifted read of one word is the `c`-bit window at `sh` of that word -/
theorem claimA (x c sh : Nat) (hx : x < 2 ^ 64) :
    (x &&& ((((1 <<< c) - 1) <<< sh) &&& mask64)) >>> sh = (x / 2 ^ sh) % 2 ^ c := by
  have e : x &&& (((2 ^ c - 1) <<< sh) &&& (2 ^ 64 - 1)) = x &&& ((2 ^ c - 1) <<< sh) := by
    rw [Nat.and_comm ((2 ^ c - 1) <<< sh), ← Nat.and_assoc, Nat.and_two_pow_sub_one_of_lt_two_pow hx]
  rw [mask64_eq, shl_one_sub, e, Nat.shiftRight_and_distrib, Nat.shiftLeft_shiftRight,
    Nat.and_two_pow_sub_one_eq_mod, Nat.shiftRight_eq_div_pow]

theorem winLow (x Y sh c : Nat) (h : sh + c ≤ 64) :
    ((x + 2 ^ 64 * Y) / 2 ^ sh) % 2 ^ c = (x / 2 ^ sh) % 2 ^ c := by
  have e : 2 ^ 64 = 2 ^ sh * (2 ^ c * 2 ^ (64 - sh - c)) := by
    rw [← Nat.pow_add, ← Nat.pow_add]; congr 1; omega
  rw [e, Nat.mul_assoc, Nat.add_mul_div_left _ _ (Nat.two_pow_pos sh), Nat.mul_assoc, Nat.add_mul_mod_self_left]

theorem winTop (x sh c : Nat) (hx : x < 2 ^ 64) (hsh : sh ≤ 64) (h : 64 ≤ sh + c) : (x / 2 ^ sh) % 2 ^ c = x / 2 ^ sh := by
  apply Nat.mod_eq_of_lt
  have h1 : x / 2 ^ sh < 2 ^ (64 - sh) := by
    apply Nat.div_lt_of_lt_mul
    rw [← Nat.pow_add]
    have : sh + (64 - sh) = 64 := by omega
    rw [this]; exact hx
  exact Nat.lt_of_lt_of_le h1 (Nat.pow_le_pow_right (by omega) (by omega))

theorem winHigh (x Y sh c : Nat) (hx : x < 2 ^ 64) (hsh : sh ≤ 64) (h : 64 < sh + c) :
    ((x + 2 ^ 64 * Y) / 2 ^ sh) % 2 ^ c = x / 2 ^ sh + 2 ^ (64 - sh) * (Y % 2 ^ (sh + c - 64)) := by
  have e : 2 ^ 64 = 2 ^ sh * 2 ^ (64 - sh) := by rw [← Nat.pow_add]; congr 1; omega
  have ec : 2 ^ c = 2 ^ (64 - sh) * 2 ^ (sh + c - 64) := by rw [← Nat.pow_add]; congr 1; omega
  have h1 : x / 2 ^ sh < 2 ^ (64 - sh) := by
    apply Nat.div_lt_of_lt_mul
    rw [← e]; exact hx
  rw [e, Nat.mul_assoc, Nat.add_mul_div_left _ _ (Nat.two_pow_pos sh), ec, Nat.mod_mul,
    Nat.add_mul_mod_self_left, Nat.mod_eq_of_lt h1, Nat.add_mul_div_left _ _ (Nat.two_pow_pos _),
    Nat.div_eq_of_lt h1, Nat.zero_add]

theorem getD4 (l0 l1 l2 l3 : Nat) :
    [l0, l1, l2, l3].getD 0 0 = l0 ∧ [l0, l1, l2, l3].getD 1 0 = l1 ∧ [l0, l1, l2, l3].getD 2 0 = l2 ∧
    [l0, l1, l2, l3].getD 3 0 = l3 ∧ [l0, l1, l2, l3].getD 4 0 = 0 := by simp

/-- **What a selector reads.** For every window width `1 ≤ c ≤ 64` and every chunk inside the
256 bits, `selectBits` returns the `c`-bit window of the number at bit `c·k`. -/
theorem selectBits_spec (c k : Nat) (hc1 : 1 ≤ c) (hc : c ≤ 64) (hk : k * c < 256)
    (l0 l1 l2 l3 : Nat) (h0 : l0 < 2 ^ 64) (h1 : l1 < 2 ^ 64) (h2 : l2 < 2 ^ 64) (h3 : l3 < 2 ^ 64) :
    selectBits c [l0, l1, l2, l3] k = (num [l0, l1, l2, l3] / 2 ^ (k * c)) % 2 ^ c := by
  obtain ⟨g0, g1, g2, g3, g4⟩ := getD4 l0 l1 l2 l3
  have hsh : k * c - k * c / 64 * 64 < 64 := by omega
  have hidx : k * c / 64 ≤ 3 := by omega
  have hjc : k * c = 64 * (k * c / 64) + (k * c - k * c / 64 * 64) := by omega
  generalize hI : k * c / 64 = idx at *
  generalize hS : k * c - idx * 64 = sh at *
  have hdiv : num [l0, l1, l2, l3] / 2 ^ (k * c) = num [l0, l1, l2, l3] / 2 ^ (64 * idx) / 2 ^ sh := by
    rw [hjc, Nat.pow_add, Nat.div_div_eq_div_mul]
  rw [hdiv]
  unfold selectBits mkSelector
  simp only [hI, hS]
  by_cases hm : ((decide (64 % c ≠ 0) && decide (sh > 64 - c) && decide (idx < 3)) = true)
  · -- two-word read
    rw [if_pos hm]
    simp only [Bool.and_eq_true, decide_eq_true_eq] at hm
    obtain ⟨⟨_, hgt⟩, hlt⟩ := hm
    simp only [↓reduceIte]
    have hnb : sh - (64 - c) = sh + c - 64 := by omega
    have hsH : c - (sh - (64 - c)) = 64 - sh := by omega
    have hshl : ∀ a : Nat, a <<< (64 - sh) = 2 ^ (64 - sh) * a := fun a => by rw [Nat.shiftLeft_eq, Nat.mul_comm]
    rw [hsH, hnb, shl_one_sub (sh + c - 64), Nat.and_two_pow_sub_one_eq_mod, hshl]
    have hY : ∀ (X Y Z : Nat), X < 2 ^ 64 →
        (X + 2 ^ 64 * (Y + 2 ^ 64 * Z)) / 2 ^ sh % 2 ^ c = X / 2 ^ sh + 2 ^ (64 - sh) * (Y % 2 ^ (sh + c - 64)) := by
      intro X Y Z hX
      rw [winHigh X _ sh c hX (by omega) (by omega)]
      congr 2
      have e : 2 ^ 64 = 2 ^ (sh + c - 64) * 2 ^ (64 - (sh + c - 64)) := by
        rw [← Nat.pow_add]; congr 1; omega
      rw [e, Nat.mul_assoc, Nat.add_mul_mod_self_left]
    unfold num
    rw [g0, g1, g2, g3]
    interval_cases idx
    · rw [g0, g1, claimA l0 c sh h0]
      have : l0 + 2 ^ 64 * l1 + 2 ^ 128 * l2 + 2 ^ 192 * l3 = l0 + 2 ^ 64 * (l1 + 2 ^ 64 * (l2 + 2 ^ 64 * l3)) := by ring
      rw [Nat.mul_zero, Nat.pow_zero, Nat.div_one, this, hY l0 l1 _ h0, winTop l0 sh c h0 (by omega) (by omega)]
    · rw [g1, g2, claimA l1 c sh h1]
      have : (l0 + 2 ^ 64 * l1 + 2 ^ 128 * l2 + 2 ^ 192 * l3) / 2 ^ (64 * 1) = l1 + 2 ^ 64 * (l2 + 2 ^ 64 * l3) := by omega
      rw [this, hY l1 l2 _ h1, winTop l1 sh c h1 (by omega) (by omega)]
    · rw [g2, g3, claimA l2 c sh h2]
      have : (l0 + 2 ^ 64 * l1 + 2 ^ 128 * l2 + 2 ^ 192 * l3) / 2 ^ (64 * 2) = l2 + 2 ^ 64 * (l3 + 2 ^ 64 * 0) := by omega
      rw [this, hY l2 l3 _ h2, winTop l2 sh c h2 (by omega) (by omega)]
  · -- one-word read
    rw [if_neg hm]
    simp only [Bool.false_eq_true, ↓reduceIte]
    simp only [Bool.and_eq_true, decide_eq_true_eq, not_and, Nat.not_lt] at hm
    have hone : ∀ (X Y : Nat), X < 2 ^ 64 → (sh + c ≤ 64 ∨ Y = 0) →
        (X + 2 ^ 64 * Y) / 2 ^ sh % 2 ^ c = (X / 2 ^ sh) % 2 ^ c := by
      intro X Y hX hcase
      rcases hcase with hle | hY0
      · exact winLow X Y sh c hle
      · rw [hY0, Nat.mul_zero, Nat.add_zero]
    -- either the window fits in the word, or the word is the top one
    have hfit : sh + c ≤ 64 ∨ idx = 3 := by
      by_cases hdiv64 : 64 % c ≠ 0
      · by_cases hgt : sh > 64 - c
        · right; have := hm ⟨hdiv64, hgt⟩; omega
        · left; omega
      · left
        -- c divides 64 and c divides k*c, so it divides sh
        have hc64 : 64 % c = 0 := by omega
        have hsd : sh % c = 0 := by
          have h64 : c ∣ 64 := Nat.dvd_of_mod_eq_zero hc64
          have hkc : c ∣ k * c := Dvd.intro_left k rfl
          have hidx64 : c ∣ idx * 64 := Dvd.dvd.mul_left h64 idx
          have : c ∣ k * c - idx * 64 := Nat.dvd_sub hkc hidx64
          rw [hS] at this
          exact Nat.mod_eq_zero_of_dvd this
        obtain ⟨m, hm64⟩ : ∃ m, 64 = c * m := ⟨64 / c, by
          have := Nat.div_add_mod 64 c; omega⟩
        obtain ⟨j, hj⟩ : ∃ j, sh = c * j := ⟨sh / c, by
          have := Nat.div_add_mod sh c; omega⟩
        have hjm : j < m := by
          by_contra hge
          have : c * m ≤ c * j := Nat.mul_le_mul_left c (by omega)
          omega
        have : c * (j + 1) ≤ c * m := Nat.mul_le_mul_left c (by omega)
        rw [Nat.mul_add, Nat.mul_one] at this
        omega
    unfold num
    rw [g0, g1, g2, g3]
    interval_cases idx
    · rw [g0, claimA l0 c sh h0]
      have : l0 + 2 ^ 64 * l1 + 2 ^ 128 * l2 + 2 ^ 192 * l3 = l0 + 2 ^ 64 * (l1 + 2 ^ 64 * (l2 + 2 ^ 64 * l3)) := by ring
      rw [Nat.mul_zero, Nat.pow_zero, Nat.div_one, this, hone l0 _ h0 (by omega)]
    · rw [g1, claimA l1 c sh h1]
      have : (l0 + 2 ^ 64 * l1 + 2 ^ 128 * l2 + 2 ^ 192 * l3) / 2 ^ (64 * 1) = l1 + 2 ^ 64 * (l2 + 2 ^ 64 * l3) := by omega
      rw [this, hone l1 _ h1 (by omega)]
    · rw [g2, claimA l2 c sh h2]
      have : (l0 + 2 ^ 64 * l1 + 2 ^ 128 * l2 + 2 ^ 192 * l3) / 2 ^ (64 * 2) = l2 + 2 ^ 64 * l3 := by omega
      rw [this, hone l2 _ h2 (by omega)]
    · rw [g3, claimA l3 c sh h3]
      have : (l0 + 2 ^ 64 * l1 + 2 ^ 128 * l2 + 2 ^ 192 * l3) / 2 ^ (64 * 3) = l3 + 2 ^ 64 * 0 := by omega
      rw [this, hone l3 0 h3 (Or.inr rfl)]

/-! ### what the recoder writes -/

/-- the two stores of `partitionScalars` for one non-zero digit -/
def writeBits (c k bits : Nat) (out : List Nat) : List Nat :=
  let s := mkSelector c k
  let out := out.set s.index ((out.getD s.index 0 ||| (bits <<< s.shift)) &&& mask64)
  if s.multiWord then out.set (s.index + 1) (out.getD (s.index + 1) 0 ||| (bits >>> s.shiftHigh)) else out

/-- OR-ing a shifted value above a smaller one, truncated to a word -/
theorem store_low (o bits sh : Nat) (ho : o < 2 ^ sh) (hsh : sh ≤ 64) :
    (o ||| (bits <<< sh)) &&& mask64 = o + 2 ^ sh * (bits % 2 ^ (64 - sh)) := by
  rw [mask64_eq, Nat.and_two_pow_sub_one_eq_mod, Nat.or_comm, ← Nat.shiftLeft_add_eq_or_of_lt ho, Nat.shiftLeft_eq]
  have e : 2 ^ 64 = 2 ^ sh * 2 ^ (64 - sh) := by rw [← Nat.pow_add]; congr 1; omega
  rw [e, Nat.mod_mul, Nat.mul_comm bits, Nat.mul_add_mod, Nat.mod_eq_of_lt ho, Nat.mul_add_div (Nat.two_pow_pos sh),
    Nat.div_eq_of_lt ho, Nat.add_zero]

theorem split_bits (bits F : Nat) : bits % F + F * (bits / F) = bits := Nat.mod_add_div bits F

/-- **What the recoder writes.** If the words so far hold a number below `2^(k·c)` and the digit
fits below bit 256, the two stores add `bits · 2^(k·c)` and keep every word below `2^64`. -/
theorem writeBits_spec (c k bits : Nat) (hc1 : 1 ≤ c) (hc : c ≤ 64) (hk : k * c < 256)
    (o0 o1 o2 o3 : Nat) (hw0 : o0 < 2 ^ 64) (hw1 : o1 < 2 ^ 64) (hw2 : o2 < 2 ^ 64) (hw3 : o3 < 2 ^ 64)
    (ho : num [o0, o1, o2, o3] < 2 ^ (k * c))
    (hb : bits < 2 ^ c) (hfit : bits * 2 ^ (k * c) < 2 ^ 256) :
    ∃ n0 n1 n2 n3, writeBits c k bits [o0, o1, o2, o3] = [n0, n1, n2, n3] ∧
      n0 < 2 ^ 64 ∧ n1 < 2 ^ 64 ∧ n2 < 2 ^ 64 ∧ n3 < 2 ^ 64 ∧
      num [n0, n1, n2, n3] = num [o0, o1, o2, o3] + bits * 2 ^ (k * c) := by
  have hsh : k * c - k * c / 64 * 64 < 64 := by omega
  have hidx : k * c / 64 ≤ 3 := by omega
  have hjc : k * c = 64 * (k * c / 64) + (k * c - k * c / 64 * 64) := by omega
  generalize hI : k * c / 64 = idx at *
  generalize hS : k * c - idx * 64 = sh at *
  have hE : 2 ^ (k * c) = 2 ^ (64 * idx) * 2 ^ sh := by rw [hjc, Nat.pow_add]
  have hEF : 2 ^ sh * 2 ^ (64 - sh) = 2 ^ 64 := by rw [← Nat.pow_add]; congr 1; omega
  have hEpos : 0 < 2 ^ sh := Nat.two_pow_pos sh
  have hEle : 2 ^ sh ≤ 2 ^ 63 := Nat.pow_le_pow_right (by omega) (by omega)
  have hFpos : 0 < 2 ^ (64 - sh) := Nat.two_pow_pos _
  -- the digit, split at the word boundary
  have hsplit := split_bits bits (2 ^ (64 - sh))
  have hlo : bits % 2 ^ (64 - sh) < 2 ^ (64 - sh) := Nat.mod_lt _ hFpos
  have hstore : ∀ o, o < 2 ^ sh → o + 2 ^ sh * (bits % 2 ^ (64 - sh)) < 2 ^ 64 := by
    intro o hlt
    have : 2 ^ sh * (bits % 2 ^ (64 - sh)) ≤ 2 ^ sh * (2 ^ (64 - sh) - 1) := Nat.mul_le_mul_left _ (by omega)
    rw [Nat.mul_sub, Nat.mul_one, hEF] at this
    omega
  unfold writeBits mkSelector
  simp only [hI, hS]
  unfold num at ho ⊢
  simp only [List.getD_cons_zero, List.getD_cons_succ] at ho ⊢
  rw [hE] at ho hfit ⊢
  by_cases hm : ((decide (64 % c ≠ 0) && decide (sh > 64 - c) && decide (idx < 3)) = true)
  · rw [if_pos hm]
    simp only [Bool.and_eq_true, decide_eq_true_eq] at hm
    obtain ⟨⟨_, hgt⟩, hlt⟩ := hm
    simp only [↓reduceIte]
    have hsH : c - (sh - (64 - c)) = 64 - sh := by omega
    rw [hsH]
    have hhi : bits / 2 ^ (64 - sh) < 2 ^ 64 := by
      have : bits < 2 ^ 64 := Nat.lt_of_lt_of_le hb (Nat.pow_le_pow_right (by omega) hc)
      exact Nat.lt_of_le_of_lt (Nat.div_le_self _ _) this
    have hst : ∀ o, o < 2 ^ sh → (o ||| (bits <<< sh)) &&& mask64 = o + 2 ^ sh * (bits % 2 ^ (64 - sh)) :=
      fun o h => store_low o bits sh h (by omega)
    have hshr : bits >>> (64 - sh) = bits / 2 ^ (64 - sh) := Nat.shiftRight_eq_div_pow _ _
    generalize hG : 2 ^ sh = E at *
    generalize hH : 2 ^ (64 - sh) = F at *
    have key : ∀ W : Nat, W * (E * (bits % F)) + W * 2 ^ 64 * (bits / F) = bits * (W * E) := by
      intro W
      rw [← hEF]
      generalize bits % F = r at *
      generalize bits / F = q at *
      rw [← hsplit]; ring
    interval_cases idx
    · have : o0 < E ∧ o1 = 0 ∧ o2 = 0 ∧ o3 = 0 := by omega
      obtain ⟨a, rfl, rfl, rfl⟩ := this
      simp only [List.getD_cons_zero, List.set_cons_zero, List.getD_cons_succ, List.set_cons_succ, Nat.zero_add]
      rw [hst o0 a, Nat.zero_or, hshr]
      refine ⟨_, _, _, _, rfl, hstore o0 a, hhi, by omega, by omega, ?_⟩
      rw [← key (2 ^ (64 * 0))]; ring
    · have : o1 < E ∧ o2 = 0 ∧ o3 = 0 := by omega
      obtain ⟨a, rfl, rfl⟩ := this
      simp only [List.getD_cons_zero, List.set_cons_zero, List.getD_cons_succ, List.set_cons_succ, Nat.zero_add]
      rw [hst o1 a, Nat.zero_or, hshr]
      refine ⟨_, _, _, _, rfl, hw0, hstore o1 a, hhi, by omega, ?_⟩
      rw [← key (2 ^ (64 * 1))]; ring
    · have : o2 < E ∧ o3 = 0 := by omega
      obtain ⟨a, rfl⟩ := this
      simp only [List.getD_cons_zero, List.set_cons_zero, List.getD_cons_succ, List.set_cons_succ, Nat.zero_add]
      rw [hst o2 a, Nat.zero_or, hshr]
      refine ⟨_, _, _, _, rfl, hw0, hw1, hstore o2 a, hhi, ?_⟩
      rw [← key (2 ^ (64 * 2))]; ring
  · rw [if_neg hm]
    simp only [Bool.false_eq_true, ↓reduceIte]
    simp only [Bool.and_eq_true, decide_eq_true_eq, not_and, Nat.not_lt] at hm
    have hst : ∀ o, o < 2 ^ sh → (o ||| (bits <<< sh)) &&& mask64 = o + 2 ^ sh * (bits % 2 ^ (64 - sh)) :=
      fun o h => store_low o bits sh h (by omega)
    -- the digit fits in the rest of the word
    have hfitw : bits % 2 ^ (64 - sh) = bits := by
      apply Nat.mod_eq_of_lt
      by_cases hle : sh + c ≤ 64
      · exact Nat.lt_of_lt_of_le hb (Nat.pow_le_pow_right (by omega) (by omega))
      · -- then this is the top word, and the digit fits below bit 256
        have hidx3 : idx = 3 := by
          by_cases hdiv64 : 64 % c ≠ 0
          · have := hm ⟨hdiv64, by omega⟩; omega
          · exfalso
            have hc64 : 64 % c = 0 := by omega
            have h64 : c ∣ 64 := Nat.dvd_of_mod_eq_zero hc64
            have hkc : c ∣ k * c := Dvd.intro_left k rfl
            have hidx64 : c ∣ idx * 64 := Dvd.dvd.mul_left h64 idx
            have hd : c ∣ k * c - idx * 64 := Nat.dvd_sub hkc hidx64
            rw [hS] at hd
            obtain ⟨m, hm64⟩ := h64
            obtain ⟨j, hj⟩ := hd
            have hjm : j < m := by
              by_contra hge
              have : c * m ≤ c * j := Nat.mul_le_mul_left c (by omega)
              omega
            have : c * (j + 1) ≤ c * m := Nat.mul_le_mul_left c (by omega)
            rw [Nat.mul_add, Nat.mul_one] at this
            omega
        subst hidx3
        have h256 : (2 : Nat) ^ 256 = (2 ^ (64 * 3) * 2 ^ sh) * 2 ^ (64 - sh) := by
          rw [Nat.mul_assoc, hEF]; norm_num
        rw [h256, Nat.mul_comm bits] at hfit
        exact Nat.lt_of_mul_lt_mul_left hfit
    rw [hfitw] at hst
    have hstore' : ∀ o, o < 2 ^ sh → o + 2 ^ sh * bits < 2 ^ 64 := by
      intro o h; have := hstore o h; rwa [hfitw] at this
    generalize hG : 2 ^ sh = E at *
    interval_cases idx
    · have : o0 < E ∧ o1 = 0 ∧ o2 = 0 ∧ o3 = 0 := by omega
      obtain ⟨a, rfl, rfl, rfl⟩ := this
      simp only [List.getD_cons_zero, List.set_cons_zero]
      rw [hst o0 a]
      refine ⟨_, _, _, _, rfl, hstore' o0 a, by omega, by omega, by omega, ?_⟩
      ring
    · have : o1 < E ∧ o2 = 0 ∧ o3 = 0 := by omega
      obtain ⟨a, rfl, rfl⟩ := this
      simp only [List.getD_cons_zero, List.set_cons_zero, List.getD_cons_succ, List.set_cons_succ]
      rw [hst o1 a]
      refine ⟨_, _, _, _, rfl, hw0, hstore' o1 a, by omega, by omega, ?_⟩
      ring
    · have : o2 < E ∧ o3 = 0 := by omega
      obtain ⟨a, rfl⟩ := this
      simp only [List.getD_cons_zero, List.set_cons_zero, List.getD_cons_succ, List.set_cons_succ]
      rw [hst o2 a]
      refine ⟨_, _, _, _, rfl, hw0, hw1, hstore' o2 a, by omega, ?_⟩
      ring
    · have a : o3 < E := by omega
      simp only [List.getD_cons_zero, List.set_cons_zero, List.getD_cons_succ, List.set_cons_succ]
      rw [hst o3 a]
      refine ⟨_, _, _, _, rfl, hw0, hw1, hw2, hstore' o3 a, ?_⟩
      ring

/-! ### signed digits as stored -/

theorem and_two_pow_of_lt (a m : Nat) (h : a < 2 ^ m) : a &&& 2 ^ m = 0 := by
  apply Nat.eq_of_testBit_eq
  intro i
  rw [Nat.testBit_and, Nat.testBit_two_pow, Nat.zero_testBit]
  by_cases hi : m = i
  · subst hi; simp [Nat.testBit_lt_two_pow h]
  · simp [hi]

theorem or_and_two_pow (a m : Nat) : (a ||| 2 ^ m) &&& 2 ^ m = 2 ^ m := by
  apply Nat.eq_of_testBit_eq
  intro i
  rw [Nat.testBit_and, Nat.testBit_or, Nat.testBit_two_pow]
  by_cases hi : m = i <;> simp [hi]

theorem or_and_low (a m : Nat) (h : a < 2 ^ m) : (a ||| 2 ^ m) &&& (2 ^ m - 1) = a := by
  rw [Nat.or_two_pow_eq_add_of_lt h, Nat.and_two_pow_sub_one_eq_mod, Nat.add_mod_right, Nat.mod_eq_of_lt h]

/-- how a signed digit is stored -/
def encDigit (c : Nat) (d : Int) : Nat :=
  if d ≥ 0 then d.toNat else ((-d - 1).toNat ||| (1 <<< (c - 1)))

/-- a stored digit decodes to itself, lies below `2^c` and addresses an existing bucket -/
theorem encDigit_spec (c : Nat) (hc1 : 1 ≤ c) (d : Int) (hd0 : d ≠ 0) (hlo : -(2 ^ (c - 1) : Nat) ≤ d)
    (hhi : d < (2 ^ (c - 1) : Nat)) :
    encDigit c d ≠ 0 ∧ encDigit c d < 2 ^ c ∧ decodeDigit c (encDigit c d) = d ∧
    (d > 0 → encDigit c d = d.toNat) ∧
    ∀ nb, (d > 0 → d.toNat ≤ nb) → (d < 0 → 2 ^ (c - 1) ≤ nb) → Pip.InRange c nb (encDigit c d) := by
  have hpow : 2 ^ c = 2 * 2 ^ (c - 1) := by rw [← Nat.pow_succ']; congr 1; omega
  have hpos : 0 < 2 ^ (c - 1) := Nat.two_pow_pos _
  unfold encDigit decodeDigit Pip.InRange
  rw [Nat.one_shiftLeft]
  by_cases hge : d ≥ 0
  · rw [if_pos hge]
    obtain ⟨n, rfl⟩ := Int.eq_ofNat_of_zero_le hge
    have hn : n < 2 ^ (c - 1) := by exact_mod_cast hhi
    have hn0 : n ≠ 0 := by intro h; apply hd0; rw [h]; rfl
    simp only [Int.toNat_natCast]
    have hand := and_two_pow_of_lt n (c - 1) hn
    refine ⟨hn0, by omega, ?_, fun _ => trivial, ?_⟩
    · rw [if_neg hn0, if_pos hand]
    · intro nb h1 _ _
      rw [if_pos hand]
      have := h1 (by omega)
      omega
  · rw [if_neg hge]
    have hneg : d < 0 := by omega
    obtain ⟨m, hm⟩ : ∃ m : Nat, -d - 1 = (m : Int) := ⟨(-d - 1).toNat, by omega⟩
    have hmlt : m < 2 ^ (c - 1) := by
      have : (m : Int) < (2 ^ (c - 1) : Nat) := by omega
      exact_mod_cast this
    rw [hm]
    simp only [Int.toNat_natCast]
    have h1 := or_and_two_pow m (c - 1)
    have h2 := or_and_low m (c - 1) hmlt
    have h3 := Nat.or_two_pow_eq_add_of_lt hmlt
    have hne : (m ||| 2 ^ (c - 1)) ≠ 0 := by rw [h3]; omega
    have hand : ¬ ((m ||| 2 ^ (c - 1)) &&& 2 ^ (c - 1) = 0) := by rw [h1]; omega
    refine ⟨hne, by rw [h3]; omega, ?_, fun h => by omega, ?_⟩
    · rw [if_neg hne, if_neg hand, h2]; omega
    · intro nb _ h2' _
      rw [if_neg hand, h2]
      have := h2' hneg
      omega

/-! ### windows of a number and the digit sum -/

/-- the `c`-bit window `k` of a number -/
def window (c N k : Nat) : Nat := (N / 2 ^ (k * c)) % 2 ^ c

theorem window_add_high (c A b k j : Nat) (hj : j < k) : window c (A + b * 2 ^ (k * c)) j = window c A j := by
  unfold window
  have e : k * c = j * c + (c + (k - j - 1) * c) := by
    have : k = j + 1 + (k - j - 1) := by omega
    conv_lhs => rw [this]
    ring
  rw [e, Nat.pow_add, Nat.pow_add, ← Nat.mul_assoc, Nat.mul_comm b, Nat.mul_assoc,
    Nat.add_mul_div_left _ _ (Nat.two_pow_pos _), ← Nat.mul_assoc, Nat.mul_comm b, Nat.mul_assoc,
    Nat.add_mul_mod_self_left]

theorem window_self (c A b k : Nat) (hA : A < 2 ^ (k * c)) (hb : b < 2 ^ c) : window c (A + b * 2 ^ (k * c)) k = b := by
  unfold window
  rw [Nat.mul_comm b, Nat.add_mul_div_left _ _ (Nat.two_pow_pos _), Nat.div_eq_of_lt hA, Nat.zero_add, Nat.mod_eq_of_lt hb]

theorem window_zero (c A k : Nat) (hA : A < 2 ^ (k * c)) : window c A k = 0 := by
  unfold window; rw [Nat.div_eq_of_lt hA, Nat.zero_mod]

/-- `Σ_{j<k} 2^(c·j) · digit_j(N)` -/
def Dn (c k N : Nat) : Int :=
  ((List.range k).map fun j => ((2 ^ (c * j) : Nat) : Int) * decodeDigit c (window c N j)).sum

theorem Dn_succ (c k N : Nat) : Dn c (k + 1) N = Dn c k N + ((2 ^ (c * k) : Nat) : Int) * decodeDigit c (window c N k) := by
  unfold Dn; rw [List.range_succ, List.map_append, List.sum_append]; simp

theorem Dn_add_high (c k A b : Nat) : Dn c k (A + b * 2 ^ (k * c)) = Dn c k A := by
  unfold Dn
  apply congrArg
  apply List.map_congr_left
  intro j hj
  rw [window_add_high c A b k j (List.mem_range.mp hj)]

/-! ### the recoding loop -/

/-- `partitionStep` in terms of the digit and the two stores -/
theorem partitionStep_eq (c : Nat) (limbs out : List Nat) (carry : Int) (k : Nat) :
    partitionStep c limbs (out, carry) k =
      (let digit : Int := carry + (selectBits c limbs k : Int)
       if digit = 0 then (out, 0)
       else if digit ≥ ((2 ^ (c - 1) : Nat) : Int) then (writeBits c k (encDigit c (digit - ((2 ^ c : Nat) : Int))) out, 1)
       else (writeBits c k (encDigit c digit) out, 0)) := by
  unfold partitionStep writeBits encDigit
  simp only [Nat.one_shiftLeft]
  by_cases h0 : carry + (selectBits c limbs k : Int) = 0
  · simp only [h0, ↓reduceIte]
  · simp only [h0, ↓reduceIte]
    by_cases hge : carry + (selectBits c limbs k : Int) ≥ ((2 ^ (c - 1) : Nat) : Int)
    · simp only [hge, ↓reduceIte]
    · simp only [hge, ↓reduceIte]

theorem limb_eq (s l : Nat) : limb s l = (s / 2 ^ (64 * l)) % 2 ^ 64 := by
  unfold limb; rw [Nat.and_two_pow_sub_one_eq_mod, Nat.shiftRight_eq_div_pow]

theorem limbsOf_spec (s : Nat) (hs : s < 2 ^ 256) :
    ∃ l0 l1 l2 l3, limbsOf s = [l0, l1, l2, l3] ∧ l0 < 2 ^ 64 ∧ l1 < 2 ^ 64 ∧ l2 < 2 ^ 64 ∧ l3 < 2 ^ 64 ∧
      num [l0, l1, l2, l3] = s := by
  refine ⟨_, _, _, _, rfl, ?_, ?_, ?_, ?_, ?_⟩
  · rw [limb_eq]; exact Nat.mod_lt _ (by decide)
  · rw [limb_eq]; exact Nat.mod_lt _ (by decide)
  · rw [limb_eq]; exact Nat.mod_lt _ (by decide)
  · rw [limb_eq]; exact Nat.mod_lt _ (by decide)
  · unfold num
    simp only [List.getD_cons_zero, List.getD_cons_succ, limb_eq]
    omega

/-- the selector applied to the scalar's own words reads the scalar's window -/
theorem selectBits_scalar (c k s : Nat) (hc1 : 1 ≤ c) (hc : c ≤ 64) (hk : k * c < 256) (hs : s < 2 ^ 256) :
    selectBits c (limbsOf s) k = window c s k := by
  obtain ⟨l0, l1, l2, l3, e, h0, h1, h2, h3, hn⟩ := limbsOf_spec s hs
  rw [e, selectBits_spec c k hc1 hc hk l0 l1 l2 l3 h0 h1 h2 h3, hn]; rfl

/-- the loop invariant after `k` chunks -/
structure Inv (c s k : Nat) (st : List Nat × Int) : Prop where
  shape : ∃ o0 o1 o2 o3, st.1 = [o0, o1, o2, o3] ∧ o0 < 2 ^ 64 ∧ o1 < 2 ^ 64 ∧ o2 < 2 ^ 64 ∧ o3 < 2 ^ 64
  small : num st.1 < 2 ^ (k * c)
  carry : st.2 = 0 ∨ st.2 = 1
  value : Dn c k (num st.1) + st.2 * ((2 ^ (k * c) : Nat) : Int) = ((s % 2 ^ (k * c) : Nat) : Int)

theorem mod_succ_chunk (c s k : Nat) : s % 2 ^ ((k + 1) * c) = s % 2 ^ (k * c) + 2 ^ (k * c) * window c s k := by
  unfold window
  rw [Nat.succ_mul, Nat.pow_add, Nat.mod_mul]

/-- **One chunk of the recoding loop.** -/
theorem step (c s k : Nat) (hc2 : 2 ≤ c) (hc : c ≤ 64) (hs : s < 2 ^ 256) (hk : k * c < 256)
    (st : List Nat × Int) (hinv : Inv c s k st) (nbk : Nat)
    (hcase : ((k + 1) * c ≤ 256 ∧ 2 ^ (c - 1) ≤ nbk) ∨
      (window c s k + 1 ≤ 2 ^ (256 - k * c - 1) ∧ window c s k + 1 < 2 ^ (c - 1) ∧ window c s k + 1 ≤ nbk)) :
    Inv c s (k + 1) (partitionStep c (limbsOf s) st k) ∧
    Pip.InRange c nbk (window c (num (partitionStep c (limbsOf s) st k).1) k) ∧
    (∃ b, num (partitionStep c (limbsOf s) st k).1 = num st.1 + b * 2 ^ (k * c)) ∧
    (window c s k + 1 < 2 ^ (c - 1) → (partitionStep c (limbsOf s) st k).2 = 0) := by
  obtain ⟨out, carry⟩ := st
  obtain ⟨⟨o0, o1, o2, o3, hout, hw0, hw1, hw2, hw3⟩, hsmall, hcarry, hval⟩ := hinv
  simp only at hout hsmall hcarry hval
  subst hout
  rw [partitionStep_eq, selectBits_scalar c k s (by omega) hc hk hs]
  have hpow : 2 ^ c = 2 * 2 ^ (c - 1) := by rw [← Nat.pow_succ']; congr 1; omega
  have hhalf : 0 < 2 ^ (c - 1) := Nat.two_pow_pos _
  have hw : window c s k < 2 ^ c := Nat.mod_lt _ (Nat.two_pow_pos _)
  have hPP : 2 ^ ((k + 1) * c) = 2 ^ (k * c) * 2 ^ c := by rw [Nat.succ_mul, Nat.pow_add]
  have hmod := mod_succ_chunk c s k
  have hle : 2 ^ (k * c) ≤ 2 ^ ((k + 1) * c) := Nat.pow_le_pow_right (by omega) (by rw [Nat.succ_mul]; omega)
  generalize hW : window c s k = w at *
  simp only
  by_cases h0 : carry + (w : Int) = 0
  · -- nothing stored
    rw [if_pos h0]
    have hc0 : carry = 0 := by omega
    have hw0' : w = 0 := by omega
    subst hc0 hw0'
    refine ⟨⟨⟨o0, o1, o2, o3, rfl, hw0, hw1, hw2, hw3⟩, Nat.lt_of_lt_of_le hsmall hle, Or.inl rfl, ?_⟩, ?_, ⟨0, by simp⟩, fun _ => rfl⟩
    · simp only
      rw [Dn_succ, window_zero c _ k hsmall, hmod]
      simp only [decodeDigit, ↓reduceIte, mul_zero, add_zero, zero_mul, Nat.mul_zero] at hval ⊢
      exact hval
    · simp only
      rw [window_zero c _ k hsmall]
      intro h; exact absurd rfl h
  · rw [if_neg h0]
    -- storing a digit `d` as `bits`
    have store : ∀ (bits : Nat) (d carry' : Int), bits < 2 ^ c → bits * 2 ^ (k * c) < 2 ^ 256 →
        decodeDigit c bits = d → (carry' = 0 ∨ carry' = 1) → d + carry' * ((2 ^ c : Nat) : Int) = carry + (w : Int) →
        Pip.InRange c nbk bits →
        Inv c s (k + 1) (writeBits c k bits [o0, o1, o2, o3], carry') ∧
        Pip.InRange c nbk (window c (num (writeBits c k bits [o0, o1, o2, o3])) k) ∧
        (∃ b, num (writeBits c k bits [o0, o1, o2, o3]) = num [o0, o1, o2, o3] + b * 2 ^ (k * c)) := by
      intro bits d carry' hb hfit hdec hc' hdig hrange
      obtain ⟨n0, n1, n2, n3, hwr, hn0, hn1, hn2, hn3, hnum⟩ :=
        writeBits_spec c k bits (by omega) hc hk o0 o1 o2 o3 hw0 hw1 hw2 hw3 hsmall hb hfit
      rw [hwr]
      have hwin : window c (num [n0, n1, n2, n3]) k = bits := by rw [hnum]; exact window_self c _ bits k hsmall hb
      refine ⟨⟨⟨n0, n1, n2, n3, rfl, hn0, hn1, hn2, hn3⟩, ?_, hc', ?_⟩, by rw [hwin]; exact hrange, ⟨bits, hnum⟩⟩
      · simp only
        rw [hnum, hPP]
        have : bits * 2 ^ (k * c) ≤ (2 ^ c - 1) * 2 ^ (k * c) := Nat.mul_le_mul_right _ (by omega)
        rw [Nat.sub_mul, Nat.one_mul] at this
        have hpos : 2 ^ (k * c) ≤ 2 ^ c * 2 ^ (k * c) := Nat.le_mul_of_pos_left _ (Nat.two_pow_pos c)
        rw [Nat.mul_comm (2 ^ (k * c))]
        omega
      · simp only
        rw [Dn_succ, hwin, hdec, hnum, Dn_add_high, hmod, hPP, Nat.mul_comm c k]
        push_cast
        push_cast at hval hdig
        linear_combination hval + ((2 : Int) ^ (k * c)) * hdig
    by_cases hge : carry + (w : Int) ≥ ((2 ^ (c - 1) : Nat) : Int)
    · rw [if_pos hge]
      -- only possible away from the top chunk
      have hA : (k + 1) * c ≤ 256 ∧ 2 ^ (c - 1) ≤ nbk := by
        rcases hcase with hA | ⟨_, hB, _⟩
        · exact hA
        · exfalso
          have : (w : Int) + 1 < ((2 ^ (c - 1) : Nat) : Int) := by exact_mod_cast hB
          rcases hcarry with h | h <;> omega
      have hfitA : ∀ bits, bits < 2 ^ c → bits * 2 ^ (k * c) < 2 ^ 256 := by
        intro bits hb
        have h1 : bits * 2 ^ (k * c) < 2 ^ c * 2 ^ (k * c) := Nat.mul_lt_mul_of_pos_right hb (Nat.two_pow_pos _)
        have h2 : 2 ^ c * 2 ^ (k * c) ≤ 2 ^ 256 := by
          rw [← Nat.pow_add]; exact Nat.pow_le_pow_right (by omega) (by rw [Nat.succ_mul] at hA; omega)
        omega
      by_cases hd0 : carry + (w : Int) - ((2 ^ c : Nat) : Int) = 0
      · rw [hd0]
        have he : encDigit c 0 = 0 := by simp [encDigit]
        rw [he]
        obtain ⟨a, b, e⟩ := store 0 0 1 (Nat.two_pow_pos c) (by simp) (by simp [decodeDigit]) (Or.inr rfl)
          (by omega) (fun h => absurd rfl h)
        refine ⟨a, b, e, fun h => ?_⟩
        exfalso
        have : (w : Int) + 1 < ((2 ^ (c - 1) : Nat) : Int) := by exact_mod_cast h
        rcases hcarry with h' | h' <;> omega
      · have hpowZ : ((2 ^ c : Nat) : Int) = 2 * ((2 ^ (c - 1) : Nat) : Int) := by exact_mod_cast hpow
        have hlo : -((2 ^ (c - 1) : Nat) : Int) ≤ carry + (w : Int) - ((2 ^ c : Nat) : Int) := by omega
        have hhi : carry + (w : Int) - ((2 ^ c : Nat) : Int) < ((2 ^ (c - 1) : Nat) : Int) := by
          have : (w : Int) < ((2 ^ c : Nat) : Int) := by exact_mod_cast hw
          rcases hcarry with h | h <;> omega
        obtain ⟨_, e2, e3, _, e5⟩ := encDigit_spec c (by omega) _ hd0 hlo hhi
        have hneg : carry + (w : Int) - ((2 ^ c : Nat) : Int) < 0 ∨ carry + (w : Int) - ((2 ^ c : Nat) : Int) > 0 := by omega
        obtain ⟨a, b, e⟩ := store _ _ 1 e2 (hfitA _ e2) e3 (Or.inr rfl) (by ring)
          (e5 nbk (fun hpos => by
            exfalso
            have : (w : Int) < ((2 ^ c : Nat) : Int) := by exact_mod_cast hw
            rcases hcarry with h | h <;> omega) (fun _ => hA.2))
        refine ⟨a, b, e, fun h => ?_⟩
        exfalso
        have : (w : Int) + 1 < ((2 ^ (c - 1) : Nat) : Int) := by exact_mod_cast h
        rcases hcarry with h' | h' <;> omega
    · rw [if_neg hge]
      have hpos : carry + (w : Int) > 0 := by
        rcases hcarry with h | h <;> omega
      have hhi : carry + (w : Int) < ((2 ^ (c - 1) : Nat) : Int) := by omega
      obtain ⟨_, e2, e3, e4, e5⟩ := encDigit_spec c (by omega) _ h0 (by omega) hhi
      have hbits := e4 hpos
      have hfit : encDigit c (carry + (w : Int)) * 2 ^ (k * c) < 2 ^ 256 := by
        rcases hcase with hA | ⟨hB1, _, _⟩
        · have h1 : encDigit c (carry + (w : Int)) * 2 ^ (k * c) < 2 ^ c * 2 ^ (k * c) :=
            Nat.mul_lt_mul_of_pos_right e2 (Nat.two_pow_pos _)
          have h2 : 2 ^ c * 2 ^ (k * c) ≤ 2 ^ 256 := by
            rw [← Nat.pow_add]; exact Nat.pow_le_pow_right (by omega) (by rw [Nat.succ_mul] at hA; omega)
          omega
        · have hle1 : encDigit c (carry + (w : Int)) ≤ w + 1 := by
            rw [hbits]; rcases hcarry with h | h <;> omega
          have h1 : encDigit c (carry + (w : Int)) * 2 ^ (k * c) ≤ 2 ^ (256 - k * c - 1) * 2 ^ (k * c) :=
            Nat.mul_le_mul_right _ (by omega)
          have h2 : 2 ^ (256 - k * c - 1) * 2 ^ (k * c) < 2 ^ 256 := by
            rw [← Nat.pow_add]; exact Nat.pow_lt_pow_right (by omega) (by omega)
          omega
      have hrange : Pip.InRange c nbk (encDigit c (carry + (w : Int))) := by
        apply e5 nbk
        · intro _
          rcases hcase with ⟨_, hA2⟩ | ⟨_, _, hB3⟩
          · have : (carry + (w : Int)).toNat < 2 ^ (c - 1) := by omega
            omega
          · rcases hcarry with h | h <;> omega
        · intro hneg; omega
      obtain ⟨a, b, e⟩ := store _ _ 0 e2 hfit e3 (Or.inl rfl) (by ring) hrange
      exact ⟨a, b, e, fun _ => rfl⟩

/-- the state after `k` chunks -/
theorem loop_inv (c s : Nat) (hc2 : 2 ≤ c) (hc : c ≤ 64) (hs : s < 2 ^ 256) (nb : Nat → Nat)
    (hchunks : ∀ k, k * c < 256 →
      ((k + 1) * c ≤ 256 ∧ 2 ^ (c - 1) ≤ nb k) ∨
      (window c s k + 1 ≤ 2 ^ (256 - k * c - 1) ∧ window c s k + 1 < 2 ^ (c - 1) ∧ window c s k + 1 ≤ nb k)) :
    ∀ k, (k = 0 ∨ (k - 1) * c < 256) →
      let st := (List.range k).foldl (partitionStep c (limbsOf s)) ([0, 0, 0, 0], 0)
      Inv c s k st ∧ (∀ j, j < k → Pip.InRange c (nb j) (window c (num st.1) j)) ∧
      (1 ≤ k → window c s (k - 1) + 1 < 2 ^ (c - 1) → st.2 = 0) := by
  intro k
  induction k with
  | zero =>
    intro _
    refine ⟨⟨⟨0, 0, 0, 0, rfl, by decide, by decide, by decide, by decide⟩, by simp [num], Or.inl rfl, ?_⟩, fun j hj => by omega, fun h => by omega⟩
    simp [Dn, num, Nat.mod_one]
  | succ k ih =>
    intro hk
    have hk' : k * c < 256 := by
      rcases hk with h | h
      · omega
      · simpa using h
    obtain ⟨hinv, hrange, _⟩ := ih (by
      cases k with
      | zero => exact Or.inl rfl
      | succ m =>
        right
        simp only [Nat.add_sub_cancel]
        have : m * c ≤ (m + 1) * c := Nat.mul_le_mul_right _ (by omega)
        omega)
    simp only [List.range_succ, List.foldl_append, List.foldl_cons, List.foldl_nil]
    obtain ⟨i1, i2, ⟨b, i3⟩, i4⟩ := step c s k hc2 hc hs hk' _ hinv (nb k) (hchunks k hk')
    refine ⟨i1, ?_, fun _ => by simpa using i4⟩
    intro j hj
    by_cases hjk : j = k
    · subst hjk; exact i2
    · rw [i3, window_add_high c _ b k j (by omega)]
      exact hrange j (by omega)

theorem nbChunks_bounds (c : Nat) (hc1 : 1 ≤ c) (hc : c ≤ 64) :
    1 ≤ nbChunks c ∧ (nbChunks c - 1) * c < 256 ∧ 256 ≤ nbChunks c * c := by
  unfold nbChunks
  have hdm := Nat.div_add_mod 256 c
  have hr := Nat.mod_lt 256 (show c > 0 by omega)
  have hq : 4 ≤ 256 / c := by
    rw [Nat.le_div_iff_mul_le (by omega)]; omega
  rw [Nat.mul_comm] at hdm
  by_cases h : 256 % c ≠ 0
  · rw [if_pos h, Nat.add_sub_cancel, Nat.succ_mul]
    omega
  · rw [if_neg h, Nat.sub_mul, Nat.one_mul]
    omega

/-- **Recoding of one scalar.** For every width `2 ≤ c ≤ 64` and every scalar below `2^256` whose
top window is small enough (no carry out of the last chunk, the stored top digit fits its
narrower bucket array): the stored digits, read back through the selectors, sum to the scalar
and every one of them addresses an existing bucket. -/
theorem partitionScalar_spec (c s : Nat) (hc2 : 2 ≤ c) (hc : c ≤ 64) (hs : s < 2 ^ 256)
    (hmid : ∀ k, (k + 1) * c ≤ 256 → k ≠ nbChunks c - 1 → 2 ^ (c - 1) ≤ Pip.nbOf c k)
    (htop : window c s (nbChunks c - 1) + 1 ≤ 2 ^ (256 - (nbChunks c - 1) * c - 1) ∧
      window c s (nbChunks c - 1) + 1 < 2 ^ (c - 1) ∧
      window c s (nbChunks c - 1) + 1 ≤ Pip.nbOf c (nbChunks c - 1)) :
    Pip.digitSum c (nbChunks c) (partitionScalar c s) = (s : Int) ∧
    ∀ k, k < nbChunks c → Pip.InRange c (Pip.nbOf c k) (selectBits c (partitionScalar c s) k) := by
  obtain ⟨hn1, hnlo, hnhi⟩ := nbChunks_bounds c (by omega) hc
  -- reading any 4-word state through the selectors
  have hread : ∀ (o0 o1 o2 o3 : Nat), o0 < 2 ^ 64 → o1 < 2 ^ 64 → o2 < 2 ^ 64 → o3 < 2 ^ 64 → ∀ k, k < nbChunks c →
      selectBits c [o0, o1, o2, o3] k = window c (num [o0, o1, o2, o3]) k := by
    intro o0 o1 o2 o3 h0 h1 h2 h3 k hk
    have hkc : k * c < 256 := by
      have : k * c ≤ (nbChunks c - 1) * c := Nat.mul_le_mul_right _ (by omega)
      omega
    rw [selectBits_spec c k (by omega) hc hkc o0 o1 o2 o3 h0 h1 h2 h3]; rfl
  have hsum : ∀ (o0 o1 o2 o3 : Nat), o0 < 2 ^ 64 → o1 < 2 ^ 64 → o2 < 2 ^ 64 → o3 < 2 ^ 64 →
      Pip.digitSum c (nbChunks c) [o0, o1, o2, o3] = Dn c (nbChunks c) (num [o0, o1, o2, o3]) := by
    intro o0 o1 o2 o3 h0 h1 h2 h3
    unfold Pip.digitSum Dn
    apply congrArg
    apply List.map_congr_left
    intro k hk
    rw [hread o0 o1 o2 o3 h0 h1 h2 h3 k (List.mem_range.mp hk)]
  unfold partitionScalar
  by_cases hs0 : s = 0
  · rw [if_pos hs0]
    have hz : ∀ k, window c (num [0, 0, 0, 0]) k = 0 := by intro k; simp [window, num]
    refine ⟨?_, ?_⟩
    · rw [hsum 0 0 0 0 (by decide) (by decide) (by decide) (by decide), hs0]
      unfold Dn
      simp [hz, decodeDigit]
    · intro k hk
      rw [hread 0 0 0 0 (by decide) (by decide) (by decide) (by decide) k hk, hz]
      intro h; exact absurd rfl h
  · rw [if_neg hs0]
    have hchunks : ∀ k, k * c < 256 →
        ((k + 1) * c ≤ 256 ∧ 2 ^ (c - 1) ≤ Pip.nbOf c k) ∨
        (window c s k + 1 ≤ 2 ^ (256 - k * c - 1) ∧ window c s k + 1 < 2 ^ (c - 1) ∧ window c s k + 1 ≤ Pip.nbOf c k) := by
      intro k hk
      by_cases hkt : k = nbChunks c - 1
      · right; rw [hkt]; exact htop
      · left
        have hklt : k < nbChunks c - 1 := by
          by_contra hge
          have : (nbChunks c) * c ≤ k * c := Nat.mul_le_mul_right _ (by omega)
          omega
        have hle : (k + 1) * c ≤ (nbChunks c - 1) * c := Nat.mul_le_mul_right _ (by omega)
        exact ⟨by omega, hmid k (by omega) hkt⟩
    obtain ⟨hinv, hrange, hcar⟩ := loop_inv c s hc2 hc hs (Pip.nbOf c) hchunks (nbChunks c) (Or.inr hnlo)
    generalize (List.range (nbChunks c)).foldl (partitionStep c (limbsOf s)) ([0, 0, 0, 0], 0) = st at *
    obtain ⟨out, carry⟩ := st
    obtain ⟨⟨o0, o1, o2, o3, hout, h0, h1, h2, h3⟩, _, _, hval⟩ := hinv
    simp only at hout hval hrange hcar ⊢
    subst hout
    have hc0 : carry = 0 := hcar hn1 htop.2.1
    refine ⟨?_, ?_⟩
    · rw [hsum o0 o1 o2 o3 h0 h1 h2 h3]
      rw [hc0, zero_mul, add_zero] at hval
      rw [hval, Nat.mod_eq_of_lt]
      exact Nat.lt_of_lt_of_le hs (Nat.pow_le_pow_right (by omega) hnhi)
    · intro k hk
      rw [hread o0 o1 o2 o3 h0 h1 h2 h3 k hk]
      exact hrange k hk

end GoIpa.PipBits
