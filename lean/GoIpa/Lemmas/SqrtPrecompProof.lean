/-
  The table-driven square root of the base field (`bandersnatch/fp/sqrt.go`) is correct:
  `invSqrtEqDyadic` computes the discrete logarithm of a `2^32`-th root of unity eight bits at a
  time and returns its inverse square root, or reports an odd logarithm; hence `SqrtPrecomp`
  returns `nil` exactly for non-residues and otherwise a square root.
-/
import Mathlib.Data.ZMod.Basic
import Mathlib.RingTheory.RootsOfUnity.PrimitiveRoots
import Mathlib.NumberTheory.LegendreSymbol.Basic
import Mathlib.Tactic.Ring
import Mathlib.Tactic.LinearCombination
import Mathlib.Tactic.NormNum
import GoIpa.Props.C17
import GoIpa.Lemmas.ZpField
import GoIpa.Lemmas.Primes
namespace GoIpa.SqrtPre
open GoIpa GoIpa.Zp

instance : Fact (Nat.Prime P) := ⟨Primes.P_prime⟩
instance : Fact (2 < P) := ⟨by decide⟩

/-- the generator of the 2-Sylow subgroup, in `ZMod p` -/
noncomputable def G : ZMod P := Zp.toZ dyadicRoot

theorem toZ_eq_one_iff (a : Fp) : Zp.toZ a = 1 ↔ a.val = 1 := by
  constructor
  · intro h; exact val_eq_of_toZ_eq_natCast a 1 (by decide) (by rw [h]; simp)
  · intro h; unfold Zp.toZ; rw [h]; simp

theorem toZ_eq_neg_one (a : Fp) (h : a.val = P - 1) : Zp.toZ a = -1 := by
  unfold Zp.toZ; rw [h, Nat.cast_sub (by decide)]; simp

theorem G_pow_31 : G ^ (2 ^ 31) = -1 := by
  unfold G; rw [← toZ_pow]; exact toZ_eq_neg_one _ C17.dyadicRoot_order.1

theorem G_pow_32 : G ^ (2 ^ 32) = 1 := by
  unfold G; rw [← toZ_pow]; exact (toZ_eq_one_iff _).mpr C17.dyadicRoot_order.2

theorem neg_one_ne_one : (-1 : ZMod P) ≠ 1 := by
  intro h
  have : (2 : ZMod P) = 0 := by linear_combination -h
  have h2 : ((2 : ℕ) : ZMod P) = 0 := by exact_mod_cast this
  rw [ZMod.natCast_eq_zero_iff] at h2
  exact absurd (Nat.le_of_dvd (by decide) h2) (by decide)

theorem G_order : orderOf G = 2 ^ 32 :=
  orderOf_eq_prime_pow (by rw [G_pow_31]; exact neg_one_ne_one) G_pow_32

theorem G_primitive : IsPrimitiveRoot G (2 ^ 32) := by
  rw [← G_order]; exact IsPrimitiveRoot.orderOf _

/-- exponents of `G` only matter modulo `2^32` -/
theorem G_pow_congr (a b : ℕ) (h : a % 2 ^ 32 = b % 2 ^ 32) : G ^ a = G ^ b := by
  rw [← pow_mod_orderOf G a, ← pow_mod_orderOf G b, G_order, h]

/-! ### the pieces of the algorithm, read in `ZMod p` -/

theorem sqTimes_spec (n : ℕ) (x : Fp) : Zp.toZ (sqTimes n x) = Zp.toZ x ^ (2 ^ n) := by
  induction n generalizing x with
  | zero => simp [sqTimes]
  | succ n ih => rw [sqTimes, ih, toZ_mul, pow_succ, pow_mul', pow_two]

theorem block_spec (i j : ℕ) : Zp.toZ (precompBlock i j) = G ^ (2 ^ (8 * i) * j) := by
  unfold precompBlock dyadicRoots G
  rw [toZ_pow, toZ_pow, ← pow_mul]

/-- the exponent accumulated by `mulBlocks` -/
def blocksExp (n off : ℕ) : ℕ → ℕ → ℕ
  | 0, _ => 0
  | cnt + 1, j => 2 ^ (8 * (j + off)) * ((n >>> (8 * j)) % 256) + blocksExp n off cnt (j + 1)

theorem mulBlocks_spec (n off cnt j : ℕ) (acc : Fp) :
    Zp.toZ (mulBlocks n off cnt j acc) = Zp.toZ acc * G ^ blocksExp n off cnt j := by
  induction cnt generalizing j acc with
  | zero => simp [mulBlocks, blocksExp]
  | succ cnt ih =>
    rw [mulBlocks, ih, toZ_mul, block_spec, blocksExp, pow_add]; ring

/-! ### the lookup table -/

theorem find_of_nodup {β : Type} (l : List (ℕ × β)) (hn : (l.map (·.1)).Nodup) (k : ℕ) (v : β) (he : (k, v) ∈ l) :
    l.find? (fun x => x.1 == k) = some (k, v) := by
  induction l with
  | nil => simp at he
  | cons x xs ih =>
    simp only [List.map_cons, List.nodup_cons] at hn
    rw [List.find?_cons]
    by_cases hx : (x.1 == k) = true
    · rw [hx]
      simp only
      have hxe : x.1 = k := by simpa using hx
      rcases List.mem_cons.mp he with h | h
      · rw [h]
      · exfalso; apply hn.1; rw [hxe]; exact List.mem_map.mpr ⟨(k, v), h, rfl⟩
    · have hx' : (x.1 == k) = false := by simpa using hx
      rw [hx']
      simp only
      rcases List.mem_cons.mp he with h | h
      · exfalso; rw [← h] at hx'; simp at hx'
      · exact ih hn.2 h

theorem lut_mem (i : ℕ) (hi : i < 256) : (montKey (g8 ^ i), (256 - i) % 256) ∈ dlogLUT := by
  rw [dlogLUT]
  exact List.mem_map.mpr ⟨i, List.mem_range.mpr hi, rfl⟩

/-- **The lookup inverts `i ↦ g₈^i`** on the subgroup of order `2^8`, returning `−i mod 256` -/
theorem lookup_spec (i : ℕ) (hi : i < 256) : negDlogSmall (g8 ^ i) = (256 - i) % 256 := by
  have hfind := find_of_nodup dlogLUT C17.lut_keys_distinct _ _ (lut_mem i hi)
  rw [negDlogSmall, hfind]
  rfl

/-- an element whose image is `G^(2^24·k)` is `g₈^(k mod 256)`, so the lookup reads `−k mod 256` -/
theorem lookup_of_exp (x : Fp) (a k : ℕ) (hx : Zp.toZ x = G ^ a) (ha : a % 2 ^ 32 = (2 ^ 24 * k) % 2 ^ 32) :
    negDlogSmall x = (256 - k % 256) % 256 := by
  have hg8 : Zp.toZ (g8 ^ (k % 256)) = G ^ (2 ^ 24 * (k % 256)) := by
    rw [toZ_pow]; unfold g8 dyadicRoots G; rw [toZ_pow, ← pow_mul]
  have hxe : x = g8 ^ (k % 256) := by
    apply toZ_injective
    rw [hx, hg8]
    apply G_pow_congr
    rw [ha]
    omega
  rw [hxe]
  exact lookup_spec (k % 256) (Nat.mod_lt _ (by decide))

/-! ### the discrete logarithm, eight bits at a time -/

attribute [irreducible] G

theorem or_shift (a b k : ℕ) (ha : a < 2 ^ k) : a ||| (b <<< k) = a + b * 2 ^ k := by
  rw [Nat.or_comm, ← Nat.shiftLeft_add_eq_or_of_lt ha, Nat.shiftLeft_eq, Nat.add_comm]

theorem sq8_spec (x : Fp) : Zp.toZ (sq8 x) = Zp.toZ x ^ 256 := by
  unfold sq8; rw [sqTimes_spec]; rfl

theorem sq8_G (x : Fp) (a : ℕ) (h : Zp.toZ x = G ^ a) : Zp.toZ (sq8 x) = G ^ (a * 256) := by
  rw [sq8_spec, h, ← pow_mul]

theorem mulBlocks_G (n off cnt : ℕ) (acc : Fp) (a : ℕ) (h : Zp.toZ acc = G ^ a) :
    Zp.toZ (mulBlocks n off cnt 0 acc) = G ^ (a + blocksExp n off cnt 0) := by
  rw [mulBlocks_spec, h, ← pow_add]

theorem blocksExp1 (n : ℕ) : blocksExp n 2 1 0 = 65536 * (n % 256) := by
  simp [blocksExp, Nat.shiftRight_eq_div_pow]
theorem blocksExp2 (n : ℕ) : blocksExp n 1 2 0 = 256 * (n % 256) + 65536 * (n / 256 % 256) := by
  simp [blocksExp, Nat.shiftRight_eq_div_pow]
theorem blocksExp3 (n : ℕ) :
    blocksExp n 0 3 0 = n % 256 + (256 * (n / 256 % 256) + 65536 * (n / 65536 % 256)) := by
  simp [blocksExp, Nat.shiftRight_eq_div_pow]
theorem blocksExp4 (n : ℕ) :
    blocksExp n 0 4 0 = n % 256 + (256 * (n / 256 % 256) + (65536 * (n / 65536 % 256) + 16777216 * (n / 16777216 % 256))) := by
  simp [blocksExp, Nat.shiftRight_eq_div_pow]

theorem lookup_G (x : Fp) (a k : ℕ) (hx : Zp.toZ x = G ^ a) (ha : a % 4294967296 = (16777216 * k) % 4294967296) :
    negDlogSmall x = (256 - k % 256) % 256 :=
  lookup_of_exp x a k hx (by norm_num; exact ha)

theorem G_congr (a b : ℕ) (h : a % 4294967296 = b % 4294967296) : G ^ a = G ^ b :=
  G_pow_congr a b (by norm_num; exact h)

/-- **`invSqrtEqDyadic`.** For `z = G^e`: an odd `e` is reported; for an even `e` the result `r`
satisfies `z·r² = 1`. -/
theorem invSqrt_spec (z : Fp) (e : ℕ) (he : e < 4294967296) (hz : Zp.toZ z = G ^ e) :
    (e % 2 = 1 → invSqrtEqDyadic z = none) ∧
    (e % 2 = 0 → ∃ r, invSqrtEqDyadic z = some r ∧ Zp.toZ z * Zp.toZ r * Zp.toZ r = 1) := by
  unfold invSqrtEqDyadic
  simp only
  have hp1 := sq8_G z e hz
  have hp2 := sq8_G _ _ hp1
  have hp3 := sq8_G _ _ hp2
  generalize sq8 z = p1 at *
  generalize sq8 p1 = p2 at *
  generalize sq8 p2 = p3 at *
  -- block 0
  have h0 := lookup_G p3 _ e hp3 (by omega)
  generalize negDlogSmall p3 = n0 at *
  by_cases hodd : n0 % 2 = 1
  · rw [if_pos hodd]
    exact ⟨fun _ => rfl, fun hev => by omega⟩
  rw [if_neg hodd]
  refine ⟨fun ho => by omega, fun _ => ?_⟩
  -- block 1
  have hx1 := mulBlocks_G n0 2 1 p2 _ hp2
  rw [blocksExp1] at hx1
  have h1 := lookup_G _ _ ((e + n0) / 256) hx1 (by omega)
  generalize negDlogSmall (mulBlocks n0 2 1 0 p2) = b1 at *
  rw [or_shift n0 b1 8 (by omega)]
  generalize hn1 : n0 + b1 * 2 ^ 8 = n1 at *
  -- block 2
  have hx2 := mulBlocks_G n1 1 2 p1 _ hp1
  rw [blocksExp2] at hx2
  have h2 := lookup_G _ _ ((e + n1) / 65536) hx2 (by omega)
  generalize negDlogSmall (mulBlocks n1 1 2 0 p1) = b2 at *
  rw [or_shift n1 b2 16 (by omega)]
  generalize hn2 : n1 + b2 * 2 ^ 16 = n2 at *
  -- block 3
  have hx3 := mulBlocks_G n2 0 3 z _ hz
  rw [blocksExp3] at hx3
  have h3 := lookup_G _ _ ((e + n2) / 16777216) hx3 (by omega)
  generalize negDlogSmall (mulBlocks n2 0 3 0 z) = b3 at *
  rw [or_shift n2 b3 24 (by omega)]
  generalize hn3 : n2 + b3 * 2 ^ 24 = n3 at *
  -- the result
  refine ⟨_, rfl, ?_⟩
  have hone : Zp.toZ (1 : Fp) = G ^ 0 := by rw [toZ_one, pow_zero]
  have hr := mulBlocks_G (n3 >>> 1) 0 4 1 0 hone
  rw [blocksExp4] at hr
  rw [Nat.shiftRight_eq_div_pow] at hr ⊢
  rw [hr, hz, ← pow_add, ← pow_add]
  rw [G_congr _ 0 (by omega), pow_zero]

/-! ### `SqrtPrecomp` -/

theorem Q_facts : 2 * ((Qodd - 1) / 2) + 1 = Qodd ∧ Qodd * 4294967296 = P - 1 ∧ Qodd * 2147483648 = P / 2 := by
  decide

theorem G_half : G ^ 2147483648 = -1 := by
  have := G_pow_31; norm_num at this; exact this

/-- **`SqrtPrecomp`.** For every base-field element `v`: a returned `y` satisfies `y² = v`, and the
routine returns `nil` exactly when `v` is not a square (`SqrtPrecomp(0) = 0`). -/
theorem sqrtPrecomp_spec (v : Fp) :
    (∀ y, Fp.sqrtPrecomp v = some y → y * y = v) ∧ (Fp.sqrtPrecomp v = none ↔ ¬ IsSquare (Zp.toZ v)) := by
  by_cases hv0 : v = 0
  · subst hv0
    rw [C17.sqrtPrecomp_zero]
    refine ⟨?_, ?_⟩
    · intro y hy
      have : y = 0 := by injection hy with h; exact h.symm
      subst this; apply toZ_injective; simp
    · constructor
      · intro h; cases h
      · intro h; exfalso; apply h; rw [toZ_zero]; exact ⟨0, by simp⟩
  have hvz : Zp.toZ v ≠ 0 := by
    intro h; apply hv0; apply toZ_injective; rw [h, toZ_zero]
  have hval : v.val ≠ 0 := by
    intro h; apply hvz; unfold Zp.toZ; rw [h]; simp
  obtain ⟨hq1, hq32, hq31⟩ := Q_facts
  unfold Fp.sqrtPrecomp
  rw [if_neg hval]
  simp only
  set acc := v ^ ((Qodd - 1) / 2) with hacc
  have haccz : Zp.toZ acc = Zp.toZ v ^ ((Qodd - 1) / 2) := toZ_pow v _
  have hroot : Zp.toZ (acc * acc * v) = Zp.toZ v ^ Qodd := by
    rw [toZ_mul, toZ_mul, haccz]
    conv_rhs => rw [← hq1]
    rw [pow_succ, pow_mul]; ring
  have hroot32 : Zp.toZ (acc * acc * v) ^ 4294967296 = 1 := by
    rw [hroot, ← pow_mul, hq32]
    exact ZMod.pow_card_sub_one_eq_one hvz
  obtain ⟨e, he, hge⟩ := G_primitive.eq_pow_of_pow_eq_one (by
    rw [show (2:ℕ) ^ 32 = 4294967296 by norm_num]; exact hroot32)
  rw [show (2:ℕ) ^ 32 = 4294967296 by norm_num] at he
  obtain ⟨hoddcase, hevencase⟩ := invSqrt_spec (acc * acc * v) e he hge.symm
  have heuler := ZMod.euler_criterion P hvz
  have hpow31 : Zp.toZ v ^ (P / 2) = (-1) ^ e := by
    rw [← hq31, pow_mul, ← hroot, ← hge, ← pow_mul, Nat.mul_comm, pow_mul, G_half]
  rcases Nat.mod_two_eq_zero_or_one e with hev | hod
  · obtain ⟨r, hr, hrel⟩ := hevencase hev
    rw [hr]
    have hsq : IsSquare (Zp.toZ v) := by
      rw [heuler, hpow31]
      obtain ⟨k, hk⟩ : ∃ k, e = 2 * k := ⟨e / 2, by omega⟩
      rw [hk, pow_mul]; simp
    refine ⟨?_, ?_⟩
    · intro y hy
      simp only [Option.some.injEq] at hy
      subst hy
      apply toZ_injective
      simp only [toZ_mul] at hrel ⊢
      linear_combination (Zp.toZ v) * hrel
    · constructor
      · intro h; cases h
      · intro h; exact absurd hsq h
  · rw [hoddcase hod]
    have hnsq : ¬ IsSquare (Zp.toZ v) := by
      rw [heuler, hpow31]
      obtain ⟨k, hk⟩ : ∃ k, e = 2 * k + 1 := ⟨e / 2, by omega⟩
      rw [hk, pow_succ, pow_mul]; simp
      exact neg_one_ne_one
    exact ⟨fun y hy => (by cases hy), fun _ => hnsq, fun _ => rfl⟩

end GoIpa.SqrtPre
