/-
  Montgomery batch inversion with zero skipping equals pointwise inversion (`0⁻¹ = 0`).
-/
import Mathlib.Tactic.Ring
import Mathlib.Tactic.FieldSimp
import Mathlib.Algebra.Field.Basic
import GoIpa.Model.Bary
namespace GoIpa

variable {F : Type} [Field F] [DecidableEq F]

/-- prefix products over the non-zero entries, starting from `c` (a `0` placeholder at zeros) -/
def biPrefixes (c : F) : List F → List F
  | [] => []
  | x :: xs => if x = 0 then 0 :: biPrefixes c xs else c :: biPrefixes (c * x) xs

def biTotal (c : F) : List F → F
  | [] => c
  | x :: xs => if x = 0 then biTotal c xs else biTotal (c * x) xs

theorem biTotal_ne_zero (c : F) (hc : c ≠ 0) (a : List F) : biTotal c a ≠ 0 := by
  induction a generalizing c with
  | nil => simpa [biTotal]
  | cons x xs ih =>
    unfold biTotal
    by_cases hx : x = 0
    · simpa [hx] using ih c hc
    · simpa [hx] using ih (c * x) (mul_ne_zero hc hx)

theorem bi_forward (a : List F) (l : List F) (c : F) :
    a.foldl (fun (st : List F × F) x => if x = 0 then (st.1 ++ [0], st.2) else (st.1 ++ [st.2], st.2 * x)) (l, c)
      = (l ++ biPrefixes c a, biTotal c a) := by
  induction a generalizing l c with
  | nil => simp [biPrefixes, biTotal]
  | cons x xs ih =>
    by_cases hx : x = 0
    · simp [List.foldl_cons, hx, ih, biPrefixes, biTotal]
    · simp [List.foldl_cons, hx, ih, biPrefixes, biTotal]

theorem bi_backward (a : List F) (c t : F) (hc : c ≠ 0) (ht : t * biTotal c a = 1) :
    (List.zip a (biPrefixes c a)).foldr (fun (xp : F × F) (st : List F × F) =>
        if xp.1 = 0 then (0 :: st.1, st.2) else ((xp.2 * st.2) :: st.1, st.2 * xp.1)) ([], t)
      = (a.map (·⁻¹), (c)⁻¹) := by
  induction a generalizing c with
  | nil =>
    simp only [biTotal] at ht
    simp only [biPrefixes, List.zip_nil_right, List.foldr_nil, List.map_nil, Prod.mk.injEq, true_and]
    exact eq_inv_of_mul_eq_one_left ht
  | cons x xs ih =>
    by_cases hx : x = 0
    · subst hx
      simp only [biPrefixes, biTotal, ↓reduceIte] at ht ⊢
      simp only [List.zip_cons_cons, List.foldr_cons, ih c hc ht, ↓reduceIte, List.map_cons, inv_zero]
    · simp only [biPrefixes, biTotal, hx, ↓reduceIte] at ht ⊢
      have hcx : c * x ≠ 0 := mul_ne_zero hc hx
      simp only [List.zip_cons_cons, List.foldr_cons, ih (c * x) hcx ht, hx, ↓reduceIte, List.map_cons]
      congr 1
      · congr 1
        field_simp
      · field_simp

/-- **Batch inversion is pointwise inversion**, zeros staying zero, for every list. -/
theorem batchInvert_eq_map (a : List F) : batchInvert a = a.map (·⁻¹) := by
  unfold batchInvert
  rw [bi_forward a [] 1]
  simp only [List.nil_append]
  have hne := biTotal_ne_zero (1 : F) one_ne_zero a
  rw [bi_backward a 1 (biTotal 1 a)⁻¹ one_ne_zero (inv_mul_cancel₀ hne)]

theorem batchInvert_length (a : List F) : (batchInvert a).length = a.length := by
  rw [batchInvert_eq_map]; simp

end GoIpa
