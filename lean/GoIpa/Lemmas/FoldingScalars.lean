/-
  The verifier's bit-test formula for the folding scalars equals the recursive form `fsRec`.
-/
import GoIpa.Lemmas.IpaAlgebra
namespace GoIpa

theorem and_two_pow' (i m : Nat) : i &&& 2 ^ m = if i.testBit m then 2 ^ m else 0 := by
  apply Nat.eq_of_testBit_eq
  intro j
  rw [Nat.testBit_and, Nat.testBit_two_pow]
  by_cases h : i.testBit m
  · simp only [h, ↓reduceIte, Nat.testBit_two_pow]
    by_cases e : m = j
    · subst e; simp [h]
    · simp [e]
  · simp only [h, Bool.false_eq_true, ↓reduceIte, Nat.zero_testBit]
    by_cases e : m = j
    · subst e; simp [h]
    · simp [e]

theorem bit_pos_iff (i m : Nat) : (i &&& (1 <<< m) > 0) ↔ i.testBit m = true := by
  rw [Nat.one_shiftLeft, and_two_pow']
  by_cases h : i.testBit m <;> simp [h]

section
variable {F : Type} [Field F]

/-- the fold of `foldingScalar`, with an arbitrary start value and index offset -/
def fsFold (k i : Nat) (l : List (F × Nat)) (acc : F) : F :=
  l.foldl (fun acc (xj : F × Nat) => if i &&& (1 <<< (k - 1 - xj.2)) > 0 then acc * xj.1 else acc) acc

theorem foldingScalar_eq (k : Nat) (xs : List F) (i : Nat) : foldingScalar k xs i = fsFold k i (List.zipIdx xs) 1 := rfl

theorem fsFold_mul (k i : Nat) (l : List (F × Nat)) (c : F) : fsFold k i l c = c * fsFold k i l 1 := by
  induction l generalizing c with
  | nil => simp [fsFold]
  | cons e l ih =>
    unfold fsFold at ih ⊢
    simp only [List.foldl_cons]
    split
    · rw [ih (c * e.1), ih (1 * e.1)]; ring
    · exact ih c

/-- shifting all indices by one and the round count by one leaves the tests unchanged -/
theorem fsFold_shift (k i : Nat) (xs : List F) (off : Nat) (acc : F) :
    fsFold (k + 1) i (List.zipIdx xs (off + 1)) acc = fsFold k i (List.zipIdx xs off) acc := by
  induction xs generalizing off acc with
  | nil => rfl
  | cons x xs ih =>
    unfold fsFold at ih ⊢
    simp only [List.zipIdx_cons, List.foldl_cons]
    have : k + 1 - 1 - (off + 1) = k - 1 - off := by omega
    rw [this]
    exact ih (off + 1) _

/-- the tests of the remaining rounds only look at bits below `k` -/
theorem fsFold_low_bits (k i : Nat) (xs : List F) (off : Nat) (acc : F) (h : off + xs.length ≤ k) :
    fsFold (k + 1) (2 ^ k + i) (List.zipIdx xs (off + 1)) acc = fsFold (k + 1) i (List.zipIdx xs (off + 1)) acc := by
  induction xs generalizing off acc with
  | nil => rfl
  | cons x xs ih =>
    unfold fsFold at ih ⊢
    simp only [List.zipIdx_cons, List.foldl_cons]
    simp only [List.length_cons] at h
    have hlt : k + 1 - 1 - (off + 1) < k := by omega
    have : ((2 ^ k + i) &&& (1 <<< (k + 1 - 1 - (off + 1))) > 0) ↔ (i &&& (1 <<< (k + 1 - 1 - (off + 1))) > 0) := by
      rw [bit_pos_iff, bit_pos_iff, Nat.testBit_two_pow_add_gt hlt]
    simp only [this]
    exact ih (off + 1) _ (by omega)

/-- **Closed form.** For `k` challenges, the verifier's bit-test products over `i = 0 … 2^k − 1`
are the recursive folding scalars. -/
theorem foldingScalars_eq_fsRec (xs : List F) :
    (List.range (2 ^ xs.length)).map (foldingScalar xs.length xs) = fsRec xs := by
  induction xs with
  | nil => simp [fsRec, foldingScalar]
  | cons x xs ih =>
    have hpow : 2 ^ (x :: xs).length = 2 ^ xs.length + 2 ^ xs.length := by simp [pow_succ]; ring
    rw [hpow, List.range_add, List.map_append, List.map_map]
    rw [show fsRec (x :: xs) = fsRec xs ++ (fsRec xs).map (x * ·) from rfl, ← ih, List.map_map]
    congr 1
    · -- low half: the top bit is clear
      apply List.map_congr_left
      intro i hi
      have hi' : i < 2 ^ xs.length := List.mem_range.mp hi
      rw [foldingScalar_eq, foldingScalar_eq]
      simp only [List.length_cons, List.zipIdx_cons]
      unfold fsFold
      simp only [List.foldl_cons]
      have hbit : ¬(i &&& (1 <<< (xs.length + 1 - 1 - 0)) > 0) := by
        rw [bit_pos_iff]; simp [Nat.testBit_lt_two_pow hi']
      simp only [hbit, ↓reduceIte]
      exact fsFold_shift xs.length i xs 0 1
    · -- high half: the top bit is set, the lower bits are those of `i`
      apply List.map_congr_left
      intro i hi
      have hi' : i < 2 ^ xs.length := List.mem_range.mp hi
      simp only [Function.comp]
      rw [foldingScalar_eq, foldingScalar_eq]
      simp only [List.length_cons, List.zipIdx_cons]
      have hbit : (2 ^ xs.length + i) &&& (1 <<< (xs.length + 1 - 1 - 0)) > 0 := by
        rw [bit_pos_iff]
        simp [Nat.testBit_two_pow_add_eq, Nat.testBit_lt_two_pow hi']
      have e1 : fsFold (xs.length + 1) (2 ^ xs.length + i) ((x, 0) :: List.zipIdx xs (0 + 1)) 1
          = fsFold (xs.length + 1) (2 ^ xs.length + i) (List.zipIdx xs (0 + 1)) (1 * x) := by
        unfold fsFold
        simp only [List.foldl_cons, hbit, ↓reduceIte]
      rw [e1, fsFold_low_bits xs.length i xs 0 _ (by omega), fsFold_shift, fsFold_mul]
      ring

end
end GoIpa
