/-
  Reasoning principles for the loop vocabulary of the translator (`Model/Loop.lean`): loops as
  folds over `List.range`, an induction principle for loop invariants, pointwise reading of
  lists after `set`, and extensionality through `getD`.
-/
import GoIpa.Model.Loop
import Mathlib.Data.List.Basic
namespace GoIpa.Loop

theorem get_nat {α : Type} (l : List α) (k : Nat) (d : α) : get l (k : Int) d = l.getD k d := by
  unfold get
  have : ¬ ((k : Int) < 0) := by omega
  rw [if_neg this]; simp

theorem set_nat {α : Type} (l : List α) (k : Nat) (v : α) : set l (k : Int) v = l.set k v := by
  unfold set
  have : ¬ ((k : Int) < 0) := by omega
  rw [if_neg this]; simp

theorem forUp_nat {σ : Type} (lo hi : Nat) (st : σ) (body : Int → σ → σ) :
    forUp (lo : Int) (hi : Int) st body
      = (List.range (hi - lo)).foldl (fun st (k : Nat) => body (((lo + k : Nat)) : Int) st) st := by
  unfold forUp
  have : ((hi : Int) - (lo : Int)).toNat = hi - lo := by omega
  rw [this]
  congr 1

theorem forUp_zero {σ : Type} (hi : Nat) (st : σ) (body : Int → σ → σ) :
    forUp 0 (hi : Int) st body = (List.range hi).foldl (fun st (k : Nat) => body (k : Int) st) st := by
  have := forUp_nat 0 hi st body
  simpa using this

/-- **Loop invariant principle** for a fold over `range n` -/
theorem foldl_range_inv {σ : Type} (P : Nat → σ → Prop) (f : σ → Nat → σ) (init : σ) (n : Nat)
    (h0 : P 0 init) (hstep : ∀ k st, k < n → P k st → P (k + 1) (f st k)) :
    P n ((List.range n).foldl f init) := by
  induction n with
  | zero => simpa using h0
  | succ n ih =>
    rw [List.range_succ, List.foldl_append]
    simp only [List.foldl_cons, List.foldl_nil]
    apply hstep n _ (Nat.lt_succ_self n)
    exact ih (fun k st hk hp => hstep k st (Nat.lt_succ_of_lt hk) hp)

theorem getD_set {α : Type} (l : List α) (i j : Nat) (v d : α) :
    (l.set i v).getD j d = if i = j ∧ i < l.length then v else l.getD j d := by
  simp only [List.getD_eq_getElem?_getD, List.getElem?_set]
  by_cases h : i = j
  · subst h
    by_cases hl : i < l.length
    · simp [hl]
    · simp [hl]
  · simp [h]

theorem ext_getD {α : Type} (l₁ l₂ : List α) (d : α) (hlen : l₁.length = l₂.length)
    (h : ∀ j, j < l₁.length → l₁.getD j d = l₂.getD j d) : l₁ = l₂ := by
  apply List.ext_getElem hlen
  intro j h1 h2
  have := h j h1
  simp only [List.getD_eq_getElem?_getD, List.getElem?_eq_getElem h1, List.getElem?_eq_getElem h2,
    Option.getD_some] at this
  exact this

theorem getD_map_range {α : Type} (n : Nat) (g : Nat → α) (j : Nat) (d : α) (hj : j < n) :
    ((List.range n).map g).getD j d = g j := by
  simp [List.getD_eq_getElem?_getD, hj]

theorem getD_replicate {α : Type} (n : Nat) (v d : α) (j : Nat) (hj : j < n) :
    (List.replicate n v).getD j d = v := by
  simp [List.getD_eq_getElem?_getD, hj]

/-- a list is the table of its own entries -/
theorem eq_range_map {α : Type} (l : List α) (d : α) : l = (List.range l.length).map (fun k => l.getD k d) := by
  apply ext_getD _ _ d (by simp)
  intro j hj
  rw [getD_map_range _ _ _ _ hj]

theorem zipWith_eq_range_map {α β γ : Type} (f : α → β → γ) (a : List α) (b : List β) (da : α) (db : β)
    (h : a.length = b.length) :
    List.zipWith f a b = (List.range a.length).map (fun k => f (a.getD k da) (b.getD k db)) := by
  apply List.ext_getElem (by simp [h])
  intro j h1 h2
  simp only [List.length_zipWith, ← h, Nat.min_self] at h1
  simp [List.getD_eq_getElem?_getD, h1, h ▸ h1]

/-- **A loop that rewrites position `i` in iteration `i`** (the new value may depend on the old
one at that position) computes the pointwise image of the initial list. -/
theorem foldl_pointwise {α : Type} (n : Nat) (d : α) (G : Nat → α → α) (body : List α → Nat → List α) (l0 : List α)
    (hl0 : l0.length = n)
    (hbody : ∀ l i, i < n → l.length = n →
      (body l i).length = n ∧ ∀ j, j < n → (body l i).getD j d = if j = i then G i (l.getD i d) else l.getD j d) :
    (List.range n).foldl body l0 = (List.range n).map (fun i => G i (l0.getD i d)) := by
  have inv := foldl_range_inv
    (fun k (l : List α) => l.length = n ∧ ∀ j, j < n → l.getD j d = if j < k then G j (l0.getD j d) else l0.getD j d)
    body l0 n ⟨hl0, fun j _ => by simp⟩
    (by
      intro k l hk ⟨hlen, hpt⟩
      obtain ⟨h1, h2⟩ := hbody l k hk hlen
      refine ⟨h1, ?_⟩
      intro j hj
      rw [h2 j hj]
      by_cases hjk : j = k
      · subst hjk
        rw [if_pos rfl, hpt j hj, if_neg (Nat.lt_irrefl j), if_pos (Nat.lt_succ_self j)]
      · rw [if_neg hjk, hpt j hj]
        have hiff : (j < k + 1) ↔ (j < k) := by omega
        simp only [hiff])
  obtain ⟨hlen, hpt⟩ := inv
  apply ext_getD _ _ d (by simp [hlen])
  intro j hj
  rw [hlen] at hj
  rw [hpt j hj, if_pos hj, getD_map_range _ _ _ _ hj]

theorem getD_set_self {α : Type} (l : List α) (i : Nat) (v d : α) (h : i < l.length) : (l.set i v).getD i d = v := by
  rw [getD_set]; simp [h]

theorem getD_set_ne {α : Type} (l : List α) (i j : Nat) (v d : α) (h : i ≠ j) : (l.set i v).getD j d = l.getD j d := by
  rw [getD_set]; simp [h]

/-- **A loop that fills two blocks at once**: iteration `k` writes position `k` and position
`k + m` of a list of length `2m`. -/
theorem foldl_two_blocks {α : Type} (m : Nat) (d : α) (g h : Nat → α) (body : List α → Nat → List α)
    (hbody : ∀ l k, k < m → l.length = 2 * m → body l k = (l.set k (g k)).set (k + m) (h k)) :
    (List.range m).foldl body (List.replicate (2 * m) d) = (List.range m).map g ++ (List.range m).map h := by
  have inv := foldl_range_inv
    (fun k (l : List α) => l.length = 2 * m ∧ ∀ j, j < 2 * m → l.getD j d =
      if j < m then (if j < k then g j else d) else (if j - m < k then h (j - m) else d))
    body (List.replicate (2 * m) d) m
    ⟨List.length_replicate, fun j hj => by rw [getD_replicate _ _ _ _ hj]; simp⟩
    (by
      intro k l hk ⟨hlen, hpt⟩
      rw [hbody l k hk hlen]
      refine ⟨by simp [hlen], ?_⟩
      intro j hj
      rw [getD_set, getD_set]
      simp only [List.length_set, hlen]
      by_cases hjm : j < m
      · have h1 : ¬ (k + m = j ∧ k + m < 2 * m) := by omega
        rw [if_neg h1, if_pos hjm]
        by_cases hkj : k = j
        · subst hkj
          rw [if_pos ⟨rfl, by omega⟩, if_pos (Nat.lt_succ_self k)]
        · have h2 : ¬ (k = j ∧ k < 2 * m) := fun hh => hkj hh.1
          rw [if_neg h2, hpt j hj, if_pos hjm]
          have hiff : (j < k + 1) ↔ (j < k) := by omega
          simp only [hiff]
      · rw [if_neg hjm]
        by_cases hkj : k + m = j
        · subst hkj
          rw [if_pos ⟨rfl, by omega⟩]
          have : k + m - m = k := by omega
          rw [this, if_pos (Nat.lt_succ_self k)]
        · have h1 : ¬ (k + m = j ∧ k + m < 2 * m) := fun hh => hkj hh.1
          have h2 : ¬ (k = j ∧ k < 2 * m) := by omega
          rw [if_neg h1, if_neg h2, hpt j hj, if_neg hjm]
          have hiff : (j - m < k + 1) ↔ (j - m < k) := by omega
          simp only [hiff])
  obtain ⟨hlen, hpt⟩ := inv
  apply ext_getD _ _ d (by simp [hlen]; omega)
  intro j hj
  rw [hlen] at hj
  rw [hpt j hj]
  by_cases hjm : j < m
  · rw [if_pos hjm, if_pos hjm]
    simp only [List.getD_eq_getElem?_getD]
    rw [List.getElem?_append_left (by simpa using hjm)]
    simp [hjm]
  · rw [if_neg hjm, if_pos (by omega)]
    simp only [List.getD_eq_getElem?_getD]
    rw [List.getElem?_append_right (by simp; omega)]
    have : j - m < m := by omega
    simp [this]

/-- two folds agree when their bodies agree on every state satisfying an invariant -/
theorem foldl_congr_inv {σ : Type} (P : σ → Prop) (f g : σ → Nat → σ) (init : σ) (n : Nat) (h0 : P init)
    (hstep : ∀ k st, k < n → P st → f st k = g st k ∧ P (f st k)) :
    (List.range n).foldl f init = (List.range n).foldl g init ∧ P ((List.range n).foldl f init) := by
  induction n with
  | zero => exact ⟨rfl, by simpa using h0⟩
  | succ n ih =>
    obtain ⟨e, p⟩ := ih (fun k st hk hp => hstep k st (Nat.lt_succ_of_lt hk) hp)
    rw [List.range_succ, List.foldl_append, List.foldl_append]
    simp only [List.foldl_cons, List.foldl_nil]
    obtain ⟨e2, p2⟩ := hstep n _ (Nat.lt_succ_self n) p
    rw [← e]
    exact ⟨e2, p2⟩

/-- a loop that appends the selected entries -/
theorem foldl_append_filter {α : Type} (n : Nat) (p : Nat → Prop) [DecidablePred p] (g : Nat → α) (init : List α) :
    (List.range n).foldl (fun st k => if p k then st else st ++ [g k]) init
      = init ++ (List.range n).filterMap (fun k => if p k then none else some (g k)) := by
  induction n with
  | zero => simp
  | succ n ih =>
    rw [List.range_succ, List.foldl_append, ih, List.filterMap_append]
    simp only [List.foldl_cons, List.foldl_nil, List.filterMap_cons, List.filterMap_nil]
    by_cases hp : p n
    · simp [hp]
    · simp [hp]

end GoIpa.Loop
