/-
  Reasoning principles for the loop vocabulary of the translator (`Model/Loop.lean`): loops as
  folds over `List.range`, an induction principle for loop invariants, pointwise reading of
  lists after `set`, and extensionality through `getD`.
-/
import GoIpa.Model.Loop
import Mathlib.Data.List.Basic
namespace GoIpa.Loop

theorem get_nat {α : Type} (l : List α) (k : Nat) (d : α) : get l (k : Int) d = l.getD k d := by
  unfold get
  have : ¬ ((k : Int) < 0) := by omega
  rw [if_neg this]; simp

theorem set_nat {α : Type} (l : List α) (k : Nat) (v : α) : set l (k : Int) v = l.set k v := by
  unfold set
  have : ¬ ((k : Int) < 0) := by omega
  rw [if_neg this]; simp

theorem forUp_nat {σ : Type} (lo hi : Nat) (st : σ) (body : Int → σ → σ) :
    forUp (lo : Int) (hi : Int) st body
      = (List.range (hi - lo)).foldl (fun st (k : Nat) => body (((lo + k : Nat)) : Int) st) st := by
  unfold forUp
  have : ((hi : Int) - (lo : Int)).toNat = hi - lo := by omega
  rw [this]
  congr 1

theorem forUp_zero {σ : Type} (hi : Nat) (st : σ) (body : Int → σ → σ) :
    forUp 0 (hi : Int) st body = (List.range hi).foldl (fun st (k : Nat) => body (k : Int) st) st := by
  have := forUp_nat 0 hi st body
  simpa using this

/-- **Loop invariant principle** for a fold over `range n` -/
theorem foldl_range_inv {σ : Type} (P : Nat → σ → Prop) (f : σ → Nat → σ) (init : σ) (n : Nat)
    (h0 : P 0 init) (hstep : ∀ k st, k < n → P k st → P (k + 1) (f st k)) :
    P n ((List.range n).foldl f init) := by
  induction n with
  | zero => simpa using h0
  | succ n ih =>
    rw [List.range_succ, List.foldl_append]
    simp only [List.foldl_cons, List.foldl_nil]
    apply hstep n _ (Nat.lt_succ_self n)
    exact ih (fun k st hk hp => hstep k st (Nat.lt_succ_of_lt hk) hp)

theorem getD_set {α : Type} (l : List α) (i j : Nat) (v d : α) :
    (l.set i v).getD j d = if i = j ∧ i < l.length then v else l.getD j d := by
  simp only [List.getD_eq_getElem?_getD, List.getElem?_set]
  by_cases h : i = j
  · subst h
    by_cases hl : i < l.length
    · simp [hl]
    · simp [hl]
  · simp [h]

theorem ext_getD {α : Type} (l₁ l₂ : List α) (d : α) (hlen : l₁.length = l₂.length)
    (h : ∀ j, j < l₁.length → l₁.getD j d = l₂.getD j d) : l₁ = l₂ := by
  apply List.ext_getElem hlen
  intro j h1 h2
  have := h j h1
  simp only [List.getD_eq_getElem?_getD, List.getElem?_eq_getElem h1, List.getElem?_eq_getElem h2,
    Option.getD_some] at this
  exact this

theorem getD_map_range {α : Type} (n : Nat) (g : Nat → α) (j : Nat) (d : α) (hj : j < n) :
    ((List.range n).map g).getD j d = g j := by
  simp [List.getD_eq_getElem?_getD, hj]

theorem getD_replicate {α : Type} (n : Nat) (v d : α) (j : Nat) (hj : j < n) :
    (List.replicate n v).getD j d = v := by
  simp [List.getD_eq_getElem?_getD, hj]

/-- a list is the table of its own entries -/
theorem eq_range_map {α : Type} (l : List α) (d : α) : l = (List.range l.length).map (fun k => l.getD k d) := by
  apply ext_getD _ _ d (by simp)
  intro j hj
  rw [getD_map_range _ _ _ _ hj]

theorem zipWith_eq_range_map {α β γ : Type} (f : α → β → γ) (a : List α) (b : List β) (da : α) (db : β)
    (h : a.length = b.length) :
    List.zipWith f a b = (List.range a.length).map (fun k => f (a.getD k da) (b.getD k db)) := by
  apply List.ext_getElem (by simp [h])
  intro j h1 h2
  simp only [List.length_zipWith, ← h, Nat.min_self] at h1
  simp [List.getD_eq_getElem?_getD, h1, h ▸ h1]

end GoIpa.Loop
