/-
  `DivideOnDomain(k, f)` is the evaluation form of the polynomial quotient
  `(p(X) − p(k)) / (X − k)`, including its value at `k` itself.
-/
import Mathlib.LinearAlgebra.Lagrange
import Mathlib.Algebra.Polynomial.Div
import Mathlib.Tactic.Ring
import Mathlib.Tactic.FieldSimp
import Mathlib.Tactic.Linarith
import Mathlib.Tactic.LinearCombination
import GoIpa.Props.C18
namespace GoIpa.Divide
open GoIpa Finset Polynomial GoIpa.C18

variable {F : Type} [Field F] [DecidableEq F]

/-- the interpolating polynomial of an evaluation-form vector -/
noncomputable def interp (N : ℕ) (f : List F) : F[X] :=
  Lagrange.interpolate (range N) (dom (F := F)) (fun i => f.getD i 0)

/-- the quotient polynomial `(p − p(k)) / (X − k)` -/
noncomputable def quot (N k : ℕ) (f : List F) : F[X] :=
  (interp N f - C ((interp N f).eval (dom k))) /ₘ (X - C (dom (F := F) k))

theorem interp_eval (N : ℕ) (hinj : Set.InjOn (dom (F := F)) (range N)) (f : List F) (i : ℕ) (hi : i < N) :
    (interp N f).eval (dom i) = f.getD i 0 :=
  Lagrange.eval_interpolate_at_node _ hinj (mem_range.mpr hi)

theorem interp_degree (N : ℕ) (hinj : Set.InjOn (dom (F := F)) (range N)) (f : List F) :
    (interp N f).degree < N := by
  have := Lagrange.degree_interpolate_lt (fun i => f.getD i 0) hinj
  rw [card_range] at this
  exact this

theorem quot_mul (N k : ℕ) (f : List F) :
    (X - C (dom (F := F) k)) * quot N k f = interp N f - C ((interp N f).eval (dom k)) := by
  unfold quot
  rw [mul_divByMonic_eq_iff_isRoot]
  simp [IsRoot]

/-- off the diagonal the quotient's value is the divided difference -/
theorem quot_eval_offdiag (N k i : ℕ) (hinj : Set.InjOn (dom (F := F)) (range N)) (hk : k < N) (hi : i < N)
    (hne : i ≠ k) (f : List F) :
    (quot N k f).eval (dom i) = (f.getD i 0 - f.getD k 0) * ((i : F) - (k : F))⁻¹ := by
  have h := congrArg (eval (dom (F := F) i)) (quot_mul N k f)
  simp only [eval_mul, eval_sub, eval_X, eval_C] at h
  rw [interp_eval N hinj f i hi, interp_eval N hinj f k hk] at h
  have hd : (dom (F := F) i) - dom k ≠ 0 := by
    intro h0
    exact hne (hinj (mem_coe.mpr (mem_range.mpr hi)) (mem_coe.mpr (mem_range.mpr hk)) (sub_eq_zero.mp h0))
  simp only [dom] at h hd ⊢
  field_simp
  linear_combination h

theorem quot_degree (N k : ℕ) (hinj : Set.InjOn (dom (F := F)) (range N)) (hN : 1 ≤ N) (f : List F) :
    (quot N k f).degree < ((N - 1 : ℕ) : WithBot ℕ) := by
  set p := interp N f - C ((interp N f).eval (dom k)) with hp
  by_cases hp0 : p = 0
  · unfold quot; rw [← hp, hp0, zero_divByMonic, degree_zero]; exact WithBot.bot_lt_coe _
  · have h1 : (quot N k f).degree < p.degree := by
      unfold quot
      exact degree_divByMonic_lt p _ hp0 (by rw [degree_X_sub_C]; exact zero_lt_one)
    have h2 : p.degree < N := by
      refine lt_of_le_of_lt (degree_sub_le _ _) (max_lt (interp_degree N hinj f) ?_)
      exact lt_of_le_of_lt degree_C_le (by exact_mod_cast hN)
    have h3 : p.degree ≤ ((N - 1 : ℕ) : WithBot ℕ) := by
      rw [degree_eq_natDegree hp0] at h2 ⊢
      have : p.natDegree < N := by exact_mod_cast h2
      exact_mod_cast Nat.le_sub_one_of_lt this
    exact lt_of_lt_of_le h1 h3

/-- the top coefficient of the degree-`< N−1` quotient vanishes: `Σᵢ Q(i)/A'(i) = 0` -/
theorem quot_weighted_sum_zero (N k : ℕ) (hinj : Set.InjOn (dom (F := F)) (range N)) (hN : 1 ≤ N) (f : List F) :
    ∑ i ∈ range N, (quot N k f).eval (dom i) / (baryWeight N i : F) = 0 := by
  have hdeg := quot_degree N k hinj hN f
  have hlt : (quot N k f).degree < (#(range N) : WithBot ℕ) := by
    rw [card_range]
    exact lt_of_lt_of_le hdeg (by exact_mod_cast Nat.sub_le N 1)
  have h := Lagrange.coeff_eq_sum hinj hlt
  rw [card_range, coeff_eq_zero_of_degree_lt hdeg] at h
  rw [h]
  apply sum_congr rfl
  intro i _
  rw [baryWeight_eq]
  rfl

theorem baryWeight_ne_zero (N k : ℕ) (hinj : Set.InjOn (dom (F := F)) (range N)) (hk : k < N) :
    (baryWeight N k : F) ≠ 0 := by
  rw [baryWeight_eq_nodalWeight_inv]
  exact inv_ne_zero (Lagrange.nodalWeight_ne_zero hinj (mem_range.mpr hk))

/-- the diagonal value of the quotient in terms of the others -/
theorem quot_eval_diag (N k : ℕ) (hinj : Set.InjOn (dom (F := F)) (range N)) (hk : k < N) (f : List F) :
    (quot N k f).eval (dom k) =
      -∑ i ∈ (range N).erase k, (baryWeight N k : F) * (baryWeight N i : F)⁻¹ * (quot N k f).eval (dom i) := by
  have hsum := quot_weighted_sum_zero N k hinj (by omega) f
  rw [← add_sum_erase _ _ (mem_range.mpr hk)] at hsum
  have hk0 := baryWeight_ne_zero N k hinj hk
  have : (quot N k f).eval (dom k) = -(baryWeight N k : F) * ∑ i ∈ (range N).erase k, (quot N k f).eval (dom i) / (baryWeight N i : F) := by
    field_simp at hsum ⊢
    linear_combination hsum
  rw [this, mul_sum, ← sum_neg_distrib]
  apply sum_congr rfl
  intro i _
  rw [div_eq_mul_inv]; ring

/-- a left fold that subtracts terms is minus the sum -/
theorem foldl_sub_eq (l : List ℕ) (g : ℕ → F) (k : ℕ) (z : F) :
    l.foldl (fun acc i => if i = k then acc else acc - g i) z = z - ((l.filter (· ≠ k)).map g).sum := by
  induction l generalizing z with
  | nil => simp
  | cons a l ih =>
    simp only [List.foldl_cons]
    by_cases h : a = k
    · simp [h, ih]
    · simp [h, ih, List.filter_cons]; ring

/-- **In-domain division is exact polynomial division**: every entry of `DivideOnDomain(k, f)`,
the `k`-th included, is the value of `(p(X) − p(k)) / (X − k)` at the corresponding domain
point, where `p` is the interpolant of `f`. -/
theorem divide_spec (N k : ℕ) (hinj : Set.InjOn (dom (F := F)) (range N)) (hk : k < N) (f : List F) (i : ℕ) (hi : i < N) :
    ((Weights.new N : Weights F).divideOnDomain N k f).getD i 0 = (quot N k f).eval (dom i) := by
  by_cases hne : i = k
  · subst hne
    rw [quot_eval_diag N i hinj hk f]
    unfold Weights.divideOnDomain
    dsimp only
    rw [List.getD_eq_getElem?_getD, List.getElem?_map, List.getElem?_range hi]
    simp only [Option.map_some, Option.getD_some, ↓reduceIte]
    rw [foldl_sub_eq, zero_sub]
    congr 1
    have hnd : ((List.range N).filter (fun j => decide (j ≠ i))).Nodup := List.Nodup.filter _ List.nodup_range
    rw [← List.sum_toFinset _ hnd]
    have hset : ((List.range N).filter (fun j => decide (j ≠ i))).toFinset = (range N).erase i := by
      ext j; simp [and_comm]
    rw [hset]
    apply sum_congr rfl
    intro j hj
    have hjN : j < N := mem_range.mp (mem_of_mem_erase hj)
    have hji : j ≠ i := ne_of_mem_erase hj
    rw [ratio_spec N j i hjN hk]
    congr 1
    rw [List.getD_eq_getElem?_getD, List.getElem?_map, List.getElem?_range hjN]
    simp only [Option.map_some, Option.getD_some, hji, ↓reduceIte]
    rw [invertedElement_spec N j i hjN hk hji, quot_eval_offdiag N i j hinj hk hjN hji f]
  · rw [divide_offdiag N k i hk hi hne, quot_eval_offdiag N k i hinj hk hi hne]

end GoIpa.Divide
