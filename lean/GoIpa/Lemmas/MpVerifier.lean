/-
  Verifier-side facts of the multiproof: what the grouped evaluations, the inverse
  denominators, `g₂(t)` and the MSM scalars are, for every statement.
-/
import GoIpa.Lemmas.MpComplete
namespace GoIpa.Mp
open GoIpa GoIpa.Grouping

variable {F G : Type} [Field F] [DecidableEq F] [AddCommGroup G] [Module F G]

/-- the verifier's grouped evaluations -/
def groupedEvals (N : Nat) (l : List (F × F × Nat)) (init : List F) : List F :=
  l.foldl (fun (ge : List F) (e : F × F × Nat) => ge.set e.2.2 (ge.getD e.2.2 0 + e.1 * e.2.1)) init

theorem set_add_getD (l : List F) (z0 : Nat) (c : F) (hz : z0 < l.length) (z : Nat) :
    (l.set z0 (l.getD z0 0 + c)).getD z 0 = l.getD z 0 + (if z = z0 then c else 0) := by
  by_cases h : z = z0
  · subst h
    simp [List.getD_eq_getElem?_getD, hz]
  · rw [if_neg h, add_zero, List.getD_eq_getElem?_getD, List.getElem?_set_ne (Ne.symm h), List.getD_eq_getElem?_getD]

theorem sum_range_ite (N z0 : Nat) (hz : z0 < N) (ψ : Nat → F) (c : F) :
    ((List.range N).map fun z => ψ z * (if z = z0 then c else 0)).sum = ψ z0 * c := by
  rw [list_range_sum]
  simp only [mul_ite, mul_zero]
  rw [Finset.sum_ite_eq' (Finset.range N) z0 (fun z => ψ z * c)]
  simp [hz]

/-- **Grouped evaluations.** Any weighted sum over the table of grouped evaluations is the sum
over the openings, each weighted by the weight of its own evaluation point. -/
theorem groupedEvals_sum (N : Nat) (ψ : Nat → F) (l : List (F × F × Nat)) (init : List F)
    (hi : init.length = N) (hl : ∀ e ∈ l, e.2.2 < N) :
    (groupedEvals N l init).length = N ∧
    ((List.range N).map fun z => ψ z * (groupedEvals N l init).getD z 0).sum =
      ((List.range N).map fun z => ψ z * init.getD z 0).sum + (l.map fun e => ψ e.2.2 * (e.1 * e.2.1)).sum := by
  induction l generalizing init with
  | nil => simp [groupedEvals, hi]
  | cons e l ih =>
    have hz : e.2.2 < init.length := by rw [hi]; exact hl e (List.mem_cons_self)
    have := ih (init.set e.2.2 (init.getD e.2.2 0 + e.1 * e.2.1)) (by simp [hi])
      (fun e' he' => hl e' (List.mem_cons_of_mem _ he'))
    unfold groupedEvals at this ⊢
    simp only [List.foldl_cons, List.map_cons, List.sum_cons]
    refine ⟨this.1, ?_⟩
    rw [this.2]
    have hs : ((List.range N).map fun z => ψ z * (init.set e.2.2 (init.getD e.2.2 0 + e.1 * e.2.1)).getD z 0).sum
        = ((List.range N).map fun z => ψ z * init.getD z 0).sum + ψ e.2.2 * (e.1 * e.2.1) := by
      rw [← sum_range_ite N e.2.2 (by rw [← hi]; exact hz) ψ (e.1 * e.2.1), ← List.sum_map_add]
      apply congrArg
      apply List.map_congr_left
      intro z _
      rw [set_add_getD init e.2.2 _ hz z]; ring
    rw [hs]; ring

/-- the verifier's inverse denominators -/
theorem denInv_getD (N : Nat) (t : F) (z : Nat) (hz : z < N) :
    (batchInvert ((List.range N).map fun (i : Nat) => t - (i : F))).getD z 0 = (t - (z : F))⁻¹ := by
  rw [batchInvert_eq_map, List.map_map, List.getD_eq_getElem?_getD, List.getElem?_map, List.getElem?_range hz]
  simp

/-- the zero-skipping accumulation of `g₂(t)` is the plain sum -/
theorem g2_fold (l : List (F × F)) (acc : F) :
    l.foldl (fun (acc : F) (e : F × F) => if e.1 = 0 then acc else acc + e.1 * e.2) acc
      = acc + (l.map fun e => e.1 * e.2).sum := by
  induction l generalizing acc with
  | nil => simp
  | cons e l ih =>
    simp only [List.foldl_cons, List.map_cons, List.sum_cons, ih]
    by_cases h : e.1 = 0
    · simp [h]
    · simp only [h, ↓reduceIte]; ring

theorem zip_map_sum_range (as bs : List F) (h : as.length = bs.length) :
    ((List.zip as bs).map fun e => e.1 * e.2).sum = ((List.range as.length).map fun i => as.getD i 0 * bs.getD i 0).sum := by
  rw [← zipWith_sum_range (fun a b => a * b) as bs 0 0 h, List.map_zip_eq_zipWith]
  rfl

theorem zip3_sum_range {α β γ : Type} (φ : α × β × γ → F) (as : List α) (bs : List β) (cs : List γ)
    (da : α) (db : β) (dc : γ) (h1 : as.length = bs.length) (h2 : bs.length = cs.length) :
    ((List.zip as (List.zip bs cs)).map φ).sum =
      ((List.range as.length).map fun i => φ (as.getD i da, bs.getD i db, cs.getD i dc)).sum := by
  have hz : (List.zip as (List.zip bs cs)).map φ = List.zipWith (fun a bc => φ (a, bc)) as (List.zip bs cs) := by
    rw [List.map_zip_eq_zipWith]
    rfl
  rw [hz, zipWith_sum_range (fun a bc => φ (a, bc)) as (List.zip bs cs) da (db, dc) (by simp [h1, h2])]
  apply congrArg
  apply List.map_congr_left
  intro i hi
  have hi' : i < as.length := List.mem_range.mp hi
  have hb : i < bs.length := by omega
  have hc : i < cs.length := by omega
  simp [List.getD_eq_getElem?_getD, hb, hc]

theorem honestYs_getD (fs : List (List F)) (zs : List Nat) (hl : fs.length = zs.length) (i : Nat) (hi : i < fs.length) :
    (honestYs fs zs).getD i 0 = (fs.getD i []).getD (zs.getD i 0) 0 := by
  unfold honestYs
  have h2 : i < zs.length := by omega
  rw [List.getD_eq_getElem?_getD, List.getElem?_zipWith]
  simp [List.getElem?_eq_getElem hi, List.getElem?_eq_getElem h2, List.getD_eq_getElem?_getD]

/-- **`g₂(t)` of the verifier** is `Σᵢ rⁱ yᵢ / (t − zᵢ)` for the honest values. -/
theorem verifier_g2 (N : Nat) (fs : List (List F)) (pows : List F) (zs : List Nat) (t : F)
    (hl : fs.length = zs.length) (hp : pows.length = fs.length) (hz : ∀ z ∈ zs, z < N) :
    (List.zip (groupedEvals N (List.zip pows (List.zip (honestYs fs zs) zs)) (List.replicate N 0))
        (batchInvert ((List.range N).map fun (i : Nat) => t - (i : F)))).foldl
        (fun (acc : F) (e : F × F) => if e.1 = 0 then acc else acc + e.1 * e.2) 0
      = ((List.range fs.length).map fun i =>
          (t - ((zs.getD i 0 : Nat) : F))⁻¹ * (pows.getD i 0 * (fs.getD i []).getD (zs.getD i 0) 0)).sum := by
  have hyl : (honestYs fs zs).length = zs.length := by simp [honestYs, hl]
  have hmem : ∀ e ∈ List.zip pows (List.zip (honestYs fs zs) zs), e.2.2 < N := by
    intro e he
    have h1 := (List.of_mem_zip he).2
    exact hz _ (List.of_mem_zip h1).2
  obtain ⟨glen, gsum⟩ := groupedEvals_sum N (fun z => (t - ((z : Nat) : F))⁻¹)
    (List.zip pows (List.zip (honestYs fs zs) zs)) (List.replicate N 0) (by simp) hmem
  rw [g2_fold, zero_add, zip_map_sum_range _ _ (by rw [glen, batchInvert_length]; simp), glen]
  have hL : ((List.range N).map fun i =>
      (groupedEvals N (List.zip pows (List.zip (honestYs fs zs) zs)) (List.replicate N 0)).getD i 0 *
        (batchInvert ((List.range N).map fun (i : Nat) => t - (i : F))).getD i 0).sum
      = ((List.range N).map fun z => (t - ((z : Nat) : F))⁻¹ *
        (groupedEvals N (List.zip pows (List.zip (honestYs fs zs) zs)) (List.replicate N 0)).getD z 0).sum := by
    apply congrArg
    apply List.map_congr_left
    intro z hz'
    rw [denInv_getD N t z (List.mem_range.mp hz')]; ring
  rw [hL, gsum]
  have h0 : ((List.range N).map fun z => (t - ((z : Nat) : F))⁻¹ * (List.replicate N (0 : F)).getD z 0).sum = 0 := by
    apply List.sum_eq_zero
    intro x hx
    obtain ⟨z, _, rfl⟩ := List.mem_map.mp hx
    rw [replicate_getD_zero, mul_zero]
  rw [h0, zero_add, zip3_sum_range _ pows (honestYs fs zs) zs 0 0 0 (by rw [hp, hyl, hl]) hyl, hp]
  apply congrArg
  apply List.map_congr_left
  intro i hi
  rw [honestYs_getD fs zs hl i (List.mem_range.mp hi)]

/-- the verifier's MSM scalars are `rⁱ/(t − zᵢ)` -/
theorem verifier_scalars (N : Nat) (pows : List F) (zs : List Nat) (t : F) (hz : ∀ z ∈ zs, z < N) :
    List.zipWith (fun (p : F) (z : Nat) =>
        p * (batchInvert ((List.range N).map fun (i : Nat) => t - (i : F))).getD z 0) pows zs
      = mpScalars pows zs t := by
  unfold mpScalars
  induction pows generalizing zs with
  | nil => simp
  | cons p pows ih =>
    cases zs with
    | nil => simp
    | cons z zs =>
      simp only [List.zipWith_cons_cons]
      rw [denInv_getD N t z (hz z List.mem_cons_self), ih zs (fun z' h' => hz z' (List.mem_cons_of_mem _ h'))]

theorem msm_subVec (g : List G) (u v : List F) (h : u.length = v.length) :
    msm g (List.zipWith (· - ·) u v) = msm g u - msm g v := by
  induction g generalizing u v with
  | nil => simp
  | cons p g ih =>
    cases u with
    | nil => cases v with
      | nil => simp
      | cons y v => simp at h
    | cons x u => cases v with
      | nil => simp at h
      | cons y v =>
        simp only [List.zipWith_cons_cons, msm_cons, ih u v (by simpa using h)]
        module

end GoIpa.Mp
