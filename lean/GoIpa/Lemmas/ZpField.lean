/-
  The executable `Zp n` of the model is `ZMod n`: an injective map that preserves every operation
  the model uses (including the square-and-multiply power and, for prime `n`, the Fermat inverse),
  and a Lucas/Pratt primality criterion evaluated with the model's own power function.
-/
import Mathlib.Data.ZMod.Basic
import Mathlib.NumberTheory.LucasPrimality
import Mathlib.FieldTheory.Finite.Basic
import Mathlib.Tactic.Ring
import GoIpa.Model.Field
namespace GoIpa.Zp
open GoIpa

variable {n : ℕ} [NeZero n]

/-- the canonical representative, read in `ZMod n` -/
def toZ (a : Zp n) : ZMod n := (a.val : ZMod n)

theorem toZ_injective : Function.Injective (toZ : Zp n → ZMod n) := by
  intro a b h
  unfold toZ at h
  rw [ZMod.natCast_eq_natCast_iff'] at h
  rw [Nat.mod_eq_of_lt a.lt, Nat.mod_eq_of_lt b.lt] at h
  cases a; cases b; simp_all

theorem toZ_ofNat (a : ℕ) : toZ (ofNat n a) = (a : ZMod n) := by
  unfold toZ ofNat; simp

@[simp] theorem toZ_zero : toZ (0 : Zp n) = 0 := by
  show toZ (ofNat n 0) = 0; rw [toZ_ofNat]; simp
@[simp] theorem toZ_one : toZ (1 : Zp n) = 1 := by
  show toZ (ofNat n 1) = 1; rw [toZ_ofNat]; simp
@[simp] theorem toZ_natCast (k : ℕ) : toZ ((k : ℕ) : Zp n) = (k : ZMod n) := by
  show toZ (ofNat n k) = _; rw [toZ_ofNat]
@[simp] theorem toZ_add (a b : Zp n) : toZ (a + b) = toZ a + toZ b := by
  show toZ (ofNat n (a.val + b.val)) = _; rw [toZ_ofNat]; simp [toZ]
@[simp] theorem toZ_mul (a b : Zp n) : toZ (a * b) = toZ a * toZ b := by
  show toZ (ofNat n (a.val * b.val)) = _; rw [toZ_ofNat]; simp [toZ]
@[simp] theorem toZ_neg (a : Zp n) : toZ (-a) = -toZ a := by
  show toZ (ofNat n (n - a.val)) = _
  rw [toZ_ofNat, Nat.cast_sub (Nat.le_of_lt a.lt)]; simp [toZ]
@[simp] theorem toZ_sub (a b : Zp n) : toZ (a - b) = toZ a - toZ b := by
  show toZ (ofNat n (a.val + (n - b.val))) = _
  rw [toZ_ofNat, Nat.cast_add, Nat.cast_sub (Nat.le_of_lt b.lt)]; simp [toZ]; ring

theorem toZ_powAux (fuel : ℕ) (b : Zp n) (e : ℕ) (acc : Zp n) (h : e < 2 ^ fuel) :
    toZ (powAux fuel b e acc) = toZ acc * toZ b ^ e := by
  induction fuel generalizing b e acc with
  | zero =>
    have : e = 0 := by simpa using h
    subst this; simp [powAux]
  | succ fuel ih =>
    unfold powAux
    by_cases he : e = 0
    · subst he; simp
    · rw [if_neg he]
      have hlt : e / 2 < 2 ^ fuel := by
        rw [Nat.div_lt_iff_lt_mul (by decide)]; rw [Nat.pow_succ] at h; exact h
      rw [ih _ _ _ hlt]
      have hsplit : e = 2 * (e / 2) + e % 2 := (Nat.div_add_mod e 2).symm
      by_cases hodd : e % 2 = 1
      · rw [if_pos hodd]
        conv_rhs => rw [hsplit, hodd]
        rw [toZ_mul, toZ_mul, pow_succ, pow_mul, pow_two]; ring
      · rw [if_neg hodd]
        have : e % 2 = 0 := by omega
        conv_rhs => rw [hsplit, this]
        rw [toZ_mul, Nat.add_zero, pow_mul, pow_two]

/-- the model's square-and-multiply is exponentiation -/
theorem toZ_pow (a : Zp n) (e : ℕ) : toZ (a ^ e) = toZ a ^ e := by
  show toZ (powAux (e.log2 + 1) a e 1) = _
  rw [toZ_powAux _ _ _ _ Nat.lt_log2_self]; simp

theorem val_eq_of_toZ_eq_natCast (a : Zp n) (k : ℕ) (hk : k < n) (h : toZ a = (k : ZMod n)) : a.val = k := by
  unfold toZ at h
  rw [ZMod.natCast_eq_natCast_iff', Nat.mod_eq_of_lt a.lt, Nat.mod_eq_of_lt hk] at h
  exact h

/-- a prime dividing a product of prime powers is one of the primes -/
theorem prime_mem_of_dvd (q : ℕ) (hq : q.Prime) (l : List (ℕ × ℕ)) (hl : ∀ e ∈ l, e.1.Prime)
    (hd : q ∣ (l.map fun e => e.1 ^ e.2).prod) : ∃ e ∈ l, e.1 = q := by
  induction l with
  | nil => simp at hd; exact absurd hd hq.one_lt.ne'
  | cons x l ih =>
    simp only [List.map_cons, List.prod_cons] at hd
    rcases (Nat.Prime.dvd_mul hq).mp hd with h | h
    · have := Nat.Prime.dvd_of_dvd_pow hq h
      have := (Nat.prime_dvd_prime_iff_eq hq (hl x List.mem_cons_self)).mp this
      exact ⟨x, List.mem_cons_self, this.symm⟩
    · obtain ⟨e, he, heq⟩ := ih (fun e he => hl e (List.mem_cons_of_mem _ he)) h
      exact ⟨e, List.mem_cons_of_mem _ he, heq⟩

/-- **Lucas/Pratt criterion with the model's power function.** -/
theorem lucas_cert (p a : ℕ) [NeZero p] (hp : 1 < p) (l : List (ℕ × ℕ)) (hl : ∀ e ∈ l, e.1.Prime)
    (hprod : (l.map fun e => e.1 ^ e.2).prod = p - 1)
    (h1 : ((ofNat p a) ^ (p - 1)).val = 1)
    (h2 : ∀ e ∈ l, ((ofNat p a) ^ ((p - 1) / e.1)).val ≠ 1) : p.Prime := by
  apply lucas_primality p (a : ZMod p)
  · have := toZ_pow (ofNat p a) (p - 1)
    rw [toZ_ofNat] at this
    rw [← this]
    unfold toZ; rw [h1]; simp
  · intro q hq hd
    rw [← hprod] at hd
    obtain ⟨e, he, rfl⟩ := prime_mem_of_dvd q hq l hl hd
    intro hone
    apply h2 e he
    have := toZ_pow (ofNat p a) ((p - 1) / e.1)
    rw [toZ_ofNat, hone] at this
    exact val_eq_of_toZ_eq_natCast _ 1 hp (by rw [this]; simp)

/-! ### prime modulus: `Zp p` is a field, with the model's own operations -/

section prime
variable {p : ℕ} [hp : Fact p.Prime] [h2 : Fact (2 < p)]

instance neZeroOfPrime : NeZero p := ⟨hp.out.ne_zero⟩

/-- back from `ZMod p` -/
def ofZ (x : ZMod p) : Zp p := ofNat p x.val

theorem toZ_ofZ (x : ZMod p) : toZ (ofZ x) = x := by
  unfold ofZ; rw [toZ_ofNat]; simp

/-- the Fermat inverse of the model is the field inverse (`0⁻¹ = 0` on both sides) -/
theorem toZ_inv (a : Zp p) : toZ a⁻¹ = (toZ a)⁻¹ := by
  show toZ (a ^ (p - 2)) = _
  rw [toZ_pow]
  by_cases h0 : toZ a = 0
  · rw [h0, inv_zero, zero_pow]
    have := h2.out; omega
  · have h1 := ZMod.pow_card_sub_one_eq_one h0
    have hsplit : p - 1 = (p - 2) + 1 := by have := h2.out; omega
    rw [hsplit, pow_succ] at h1
    exact eq_inv_of_mul_eq_one_left h1

theorem toZ_div (a b : Zp p) : toZ (a / b) = toZ a / toZ b := by
  show toZ (a * b⁻¹) = _
  rw [toZ_mul, toZ_inv, div_eq_mul_inv]

instance : SMul ℕ (Zp p) := ⟨fun k a => ofZ (k • toZ a)⟩
instance : SMul ℤ (Zp p) := ⟨fun k a => ofZ (k • toZ a)⟩
instance : SMul ℚ≥0 (Zp p) := ⟨fun k a => ofZ (k • toZ a)⟩
instance : SMul ℚ (Zp p) := ⟨fun k a => ofZ (k • toZ a)⟩
instance : Pow (Zp p) ℕ := ⟨pow⟩
instance : Pow (Zp p) ℤ := ⟨fun a k => ofZ (toZ a ^ k)⟩
instance : IntCast (Zp p) := ⟨fun k => ofZ (k : ZMod p)⟩
instance : NNRatCast (Zp p) := ⟨fun k => ofZ (k : ZMod p)⟩
instance : RatCast (Zp p) := ⟨fun k => ofZ (k : ZMod p)⟩

/-- **`Zp p` is a field** whose `0, 1, +, ·, −, ⁻¹, /, ^, ℕ-cast` are the executable operations
of the model -/
instance field : Field (Zp p) :=
  toZ_injective.field toZ toZ_zero toZ_one toZ_add toZ_mul toZ_neg toZ_sub toZ_inv toZ_div
    (fun _ _ => toZ_ofZ _) (fun _ _ => toZ_ofZ _) (fun _ _ => toZ_ofZ _) (fun _ _ => toZ_ofZ _)
    (fun x k => toZ_pow x k) (fun _ _ => toZ_ofZ _) toZ_natCast (fun _ => toZ_ofZ _) (fun _ => toZ_ofZ _)
    (fun _ => toZ_ofZ _)

/-- the ring isomorphism with `ZMod p` -/
def equivZMod : Zp p ≃+* ZMod p where
  toFun := toZ
  invFun := ofZ
  left_inv a := toZ_injective (toZ_ofZ _)
  right_inv := toZ_ofZ
  map_mul' := toZ_mul
  map_add' := toZ_add

end prime

end GoIpa.Zp
