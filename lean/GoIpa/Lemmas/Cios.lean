/-
  The CIOS Montgomery multiplication of `_mulGeneric` and the reduction of `_fromMontGeneric`,
  at limb level: exactness of the `madd` helpers for all 64-bit operands, the round equation
  `t'·2^64 = t + v·y + m·q`, absence of overflow in the "no-carry" variant, and the result.
-/
import GoIpa.Props.C15
import Mathlib.Tactic.Ring
import Mathlib.Data.Nat.ModEq
namespace GoIpa.Cios
open GoIpa GoIpa.Limbs

theorem mul_bound (a b : Nat) (ha : a < W) (hb : b < W) : a * b ≤ (W - 1) * (W - 1) :=
  Nat.mul_le_mul (by omega) (by omega)

/-- `bits.Mul64` is exact -/
theorem mul64_spec (a b : Nat) : (mul64 a b).1 * W + (mul64 a b).2 = a * b := by
  unfold mul64
  have := Nat.div_add_mod (a * b) W
  simp only; rw [Nat.mul_comm]; exact this

/-- `madd0 a b c = ⌊(a·b + c)/2^64⌋` for all 64-bit operands -/
theorem madd0_spec (a b c : Nat) (ha : a < W) (hb : b < W) (hc : c < W) :
    madd0 a b c = (a * b + c) / W := by
  have hp := mul_bound a b ha hb
  unfold madd0 mul64 add64
  simp only
  generalize a * b = p at *
  unfold W at *
  omega

theorem madd1_spec (a b c : Nat) (ha : a < W) (hb : b < W) (hc : c < W) :
    madd1 a b c = ((a * b + c) / W, (a * b + c) % W) := by
  have hp := mul_bound a b ha hb
  unfold madd1 mul64 add64
  simp only
  generalize a * b = p at *
  unfold W at *
  refine Prod.ext ?_ ?_ <;> simp only <;> omega

theorem madd2_spec (a b c d : Nat) (ha : a < W) (hb : b < W) (hc : c < W) (hd : d < W) :
    madd2 a b c d = ((a * b + c + d) / W, (a * b + c + d) % W) := by
  have hp := mul_bound a b ha hb
  unfold madd2 mul64 add64
  simp only
  generalize a * b = p at *
  unfold W at *
  refine Prod.ext ?_ ?_ <;> simp only <;> omega

/-- `madd3`: the low word is exact, the high word is `⌊(a·b+c+d)/2^64⌋ + e` wrapped -/
theorem madd3_spec (a b c d e : Nat) (ha : a < W) (hb : b < W) (hc : c < W) (hd : d < W) (he : e < W) :
    madd3 a b c d e = (((a * b + c + d) / W + e) % W, (a * b + c + d) % W) := by
  have hp := mul_bound a b ha hb
  unfold madd3 mul64 add64
  simp only
  generalize a * b = p at *
  unfold W at *
  refine Prod.ext ?_ ?_ <;> simp only <;> omega

/-- one CIOS round as arithmetic on naturals (`pᵢ` stands for `v·yᵢ`) -/
def roundM (p0 p1 p2 p3 : Nat) (t : L4) : L4 :=
  let a0 := p0 + t.l0
  let m := (a0 % W * qInvNeg) % W
  let c2 := (m * q0 + a0 % W) / W
  let a1 := p1 + a0 / W + t.l1
  let b1 := m * q1 + c2 + a1 % W
  let a2 := p2 + a1 / W + t.l2
  let b2 := m * q2 + b1 / W + a2 % W
  let a3 := p3 + a2 / W + t.l3
  let b3 := m * q3 + a3 % W + b2 / W
  ⟨b1 % W, b2 % W, b3 % W, (b3 / W + a3 / W) % W⟩

/-- the Montgomery factor of a round -/
def mOf (p0 t0 : Nat) : Nat := ((p0 + t0) % W * qInvNeg) % W

/-- **Round equation.** `t'·2^64 = t + Σ pᵢ·2^(64i) + m·q`, with all result limbs below `2^64`,
whenever the right-hand side fits in five limbs. -/
theorem roundM_spec (p0 p1 p2 p3 : Nat) (t : L4) (ht : t.ok)
    (h0 : p0 ≤ (W - 1) * (W - 1)) (h1 : p1 ≤ (W - 1) * (W - 1)) (h2 : p2 ≤ (W - 1) * (W - 1))
    (h3 : p3 ≤ (W - 1) * (W - 1))
    (hS : t.val + (p0 + W * p1 + W * W * p2 + W * W * W * p3) + mOf p0 t.l0 * R < W * W * W * W * W) :
    (roundM p0 p1 p2 p3 t).ok ∧
    (roundM p0 p1 p2 p3 t).val * W =
      t.val + (p0 + W * p1 + W * W * p2 + W * W * W * p3) + mOf p0 t.l0 * R := by
  obtain ⟨t0, t1, t2, t3⟩ := t
  obtain ⟨k0, k1, k2, k3⟩ := ht
  unfold roundM mOf L4.ok L4.val R W q0 q1 q2 q3 qInvNeg at *
  simp only at *
  omega

theorem q_lt : q0 < W ∧ q1 < W ∧ q2 < W ∧ q3 < W := by decide

theorem div_lt_W (x : Nat) (h : x < W * W) : x / W < W := Nat.div_lt_of_lt_mul h

/-- the code of a later round is `roundM` on the products `v·yᵢ` -/
theorem mulRound_eq (v : Nat) (y t : L4) (hv : v < W) (hy : y.ok) (ht : t.ok) :
    mulRound v y t false = roundM (v * y.l0) (v * y.l1) (v * y.l2) (v * y.l3) t := by
  obtain ⟨y0, y1, y2, y3⟩ := y
  obtain ⟨t0, t1, t2, t3⟩ := t
  obtain ⟨hy0, hy1, hy2, hy3⟩ := hy
  obtain ⟨ht0, ht1, ht2, ht3⟩ := ht
  simp only at hy0 hy1 hy2 hy3 ht0 ht1 ht2 ht3
  obtain ⟨hq0, hq1, hq2, hq3⟩ := q_lt
  have b0 := mul_bound v y0 hv hy0
  have b1 := mul_bound v y1 hv hy1
  have b2 := mul_bound v y2 hv hy2
  have b3 := mul_bound v y3 hv hy3
  have hW : 0 < W := by decide
  unfold mulRound roundM
  simp only [Bool.false_eq_true, ↓reduceIte]
  -- step 1
  rw [madd1_spec v y0 t0 hv hy0 ht0]
  simp only
  have hc0 : (v * y0 + t0) % W < W := Nat.mod_lt _ hW
  have hc1 : (v * y0 + t0) / W < W := div_lt_W _ (by unfold W at *; omega)
  have hm : (v * y0 + t0) % W * qInvNeg % W < W := Nat.mod_lt _ hW
  rw [madd0_spec _ q0 _ hm hq0 hc0]
  -- step 2
  rw [madd2_spec v y1 _ t1 hv hy1 hc1 ht1]
  simp only
  have hd0 : (v * y1 + (v * y0 + t0) / W + t1) % W < W := Nat.mod_lt _ hW
  have hd1 : (v * y1 + (v * y0 + t0) / W + t1) / W < W := div_lt_W _ (by unfold W at *; omega)
  have hc2 : ((v * y0 + t0) % W * qInvNeg % W * q0 + (v * y0 + t0) % W) / W < W :=
    div_lt_W _ (by
      have := mul_bound _ q0 hm hq0
      unfold W at *; omega)
  rw [madd2_spec _ q1 _ _ hm hq1 hc2 hd0]
  simp only
  -- step 3
  rw [madd2_spec v y2 _ t2 hv hy2 hd1 ht2]
  simp only
  generalize hA1 : v * y1 + (v * y0 + t0) / W + t1 = A1 at *
  generalize hM : (v * y0 + t0) % W * qInvNeg % W = m at *
  generalize hC2 : (m * q0 + (v * y0 + t0) % W) / W = c2 at *
  have he0 : (v * y2 + A1 / W + t2) % W < W := Nat.mod_lt _ hW
  have he1 : (v * y2 + A1 / W + t2) / W < W := div_lt_W _ (by unfold W at *; omega)
  have hd2 : (m * q1 + c2 + A1 % W) / W < W :=
    div_lt_W _ (by
      have := mul_bound _ q1 hm hq1
      unfold W at *; omega)
  rw [madd2_spec m q2 _ _ hm hq2 hd2 he0]
  simp only
  -- step 4
  rw [madd2_spec v y3 _ t3 hv hy3 he1 ht3]
  simp only
  generalize hA2 : v * y2 + A1 / W + t2 = A2 at *
  generalize hB1 : m * q1 + c2 + A1 % W = B1 at *
  have hf0 : (v * y3 + A2 / W + t3) % W < W := Nat.mod_lt _ hW
  have hf1 : (v * y3 + A2 / W + t3) / W < W := div_lt_W _ (by unfold W at *; omega)
  have he2 : (m * q2 + B1 / W + A2 % W) / W < W :=
    div_lt_W _ (by
      have := mul_bound _ q2 hm hq2
      unfold W at *; omega)
  rw [madd3_spec m q3 _ _ _ hm hq3 hf0 he2 hf1]

/-- the code of round 0 (which starts from `t = 0` and never reads `t`) is `roundM` on zero -/
theorem mulRound_first_eq (v : Nat) (y t : L4) (hv : v < W) (hy : y.ok) :
    mulRound v y t true = roundM (v * y.l0) (v * y.l1) (v * y.l2) (v * y.l3) ⟨0, 0, 0, 0⟩ := by
  obtain ⟨y0, y1, y2, y3⟩ := y
  obtain ⟨hy0, hy1, hy2, hy3⟩ := hy
  simp only at hy0 hy1 hy2 hy3
  obtain ⟨hq0, hq1, hq2, hq3⟩ := q_lt
  have b0 := mul_bound v y0 hv hy0
  have b1 := mul_bound v y1 hv hy1
  have b2 := mul_bound v y2 hv hy2
  have b3 := mul_bound v y3 hv hy3
  have hW : 0 < W := by decide
  unfold mulRound roundM
  simp only [↓reduceIte, Nat.add_zero]
  have e0 : mul64 v y0 = ((v * y0) / W, (v * y0) % W) := rfl
  rw [e0]
  simp only
  have hc0 : (v * y0) % W < W := Nat.mod_lt _ hW
  have hc1 : (v * y0) / W < W := div_lt_W _ (by unfold W at *; omega)
  have hm : (v * y0) % W * qInvNeg % W < W := Nat.mod_lt _ hW
  rw [madd0_spec _ q0 _ hm hq0 hc0]
  rw [madd1_spec v y1 _ hv hy1 hc1]
  simp only
  have hd0 : (v * y1 + (v * y0) / W) % W < W := Nat.mod_lt _ hW
  have hd1 : (v * y1 + (v * y0) / W) / W < W := div_lt_W _ (by unfold W at *; omega)
  have hc2 : ((v * y0) % W * qInvNeg % W * q0 + (v * y0) % W) / W < W :=
    div_lt_W _ (by
      have := mul_bound _ q0 hm hq0
      unfold W at *; omega)
  rw [madd2_spec _ q1 _ _ hm hq1 hc2 hd0]
  simp only
  rw [madd1_spec v y2 _ hv hy2 hd1]
  simp only
  generalize hA1 : v * y1 + (v * y0) / W = A1 at *
  generalize hM : (v * y0) % W * qInvNeg % W = m at *
  generalize hC2 : (m * q0 + (v * y0) % W) / W = c2 at *
  have he0 : (v * y2 + A1 / W) % W < W := Nat.mod_lt _ hW
  have he1 : (v * y2 + A1 / W) / W < W := div_lt_W _ (by unfold W at *; omega)
  have hd2 : (m * q1 + c2 + A1 % W) / W < W :=
    div_lt_W _ (by
      have := mul_bound _ q1 hm hq1
      unfold W at *; omega)
  rw [madd2_spec m q2 _ _ hm hq2 hd2 he0]
  simp only
  rw [madd1_spec v y3 _ hv hy3 he1]
  simp only
  generalize hA2 : v * y2 + A1 / W = A2 at *
  generalize hB1 : m * q1 + c2 + A1 % W = B1 at *
  have hf0 : (v * y3 + A2 / W) % W < W := Nat.mod_lt _ hW
  have hf1 : (v * y3 + A2 / W) / W < W := div_lt_W _ (by unfold W at *; omega)
  have he2 : (m * q2 + B1 / W + A2 % W) / W < W :=
    div_lt_W _ (by
      have := mul_bound _ q2 hm hq2
      unfold W at *; omega)
  rw [madd3_spec m q3 _ _ _ hm hq3 hf0 he2 hf1]

theorem val_mul (v : Nat) (y : L4) :
    v * y.l0 + W * (v * y.l1) + W * W * (v * y.l2) + W * W * W * (v * y.l3) = v * y.val := by
  unfold L4.val; ring

/-- **One CIOS round on the invariant `t < 2q`.** -/
theorem roundM_step (v : Nat) (y t : L4) (hv : v < W) (hy : y.ok) (hyr : y.val < R) (ht : t.ok)
    (htr : t.val < 2 * R) :
    let t' := roundM (v * y.l0) (v * y.l1) (v * y.l2) (v * y.l3) t
    t'.ok ∧ t'.val < 2 * R ∧ t'.val * W = t.val + v * y.val + mOf (v * y.l0) t.l0 * R := by
  intro t'
  have hm : mOf (v * y.l0) t.l0 < W := Nat.mod_lt _ (by decide)
  have hvy : v * y.val ≤ (W - 1) * (R - 1) := Nat.mul_le_mul (by omega) (by omega)
  have hmr : mOf (v * y.l0) t.l0 * R ≤ (W - 1) * R := Nat.mul_le_mul (by omega) (Nat.le_refl _)
  obtain ⟨hy0, hy1, hy2, hy3⟩ := hy
  have hS : t.val + (v * y.l0 + W * (v * y.l1) + W * W * (v * y.l2) + W * W * W * (v * y.l3)) +
      mOf (v * y.l0) t.l0 * R < W * W * W * W * W := by
    rw [val_mul]
    generalize v * y.val = a at *
    generalize mOf (v * y.l0) t.l0 * R = b at *
    unfold R W at *
    omega
  obtain ⟨ok, hval⟩ := roundM_spec _ _ _ _ t ht (mul_bound v y.l0 hv hy0) (mul_bound v y.l1 hv hy1)
    (mul_bound v y.l2 hv hy2) (mul_bound v y.l3 hv hy3) hS
  rw [val_mul] at hval
  refine ⟨ok, ?_, hval⟩
  show t'.val < 2 * R
  have : t'.val * W = t.val + v * y.val + mOf (v * y.l0) t.l0 * R := hval
  generalize v * y.val = a at *
  generalize mOf (v * y.l0) t.l0 * R = b at *
  generalize t'.val = tv at *
  unfold R W at *
  omega

theorem zero_ok : (⟨0, 0, 0, 0⟩ : L4).ok ∧ (⟨0, 0, 0, 0⟩ : L4).val = 0 := by
  unfold L4.ok L4.val W; simp

/-- **CIOS Montgomery multiplication** (`_mulGeneric`).  For all limb vectors `x`, `y` with
`y < q`: the result is fully reduced and `mul(x,y)·2^256 ≡ x·y (mod q)`. -/
theorem mulG_correct (x y : L4) (hx : x.ok) (hy : y.ok) (hyr : y.val < R) :
    (mulG x y).ok ∧ (mulG x y).val < R ∧
      ((mulG x y).val * (W * W * W * W)) % R = (x.val * y.val) % R := by
  obtain ⟨hx0, hx1, hx2, hx3⟩ := hx
  unfold mulG
  simp only
  rw [mulRound_first_eq x.l0 y _ hx0 hy]
  obtain ⟨ok1, r1, e1⟩ := roundM_step x.l0 y ⟨0, 0, 0, 0⟩ hx0 hy hyr zero_ok.1 (by rw [zero_ok.2]; decide)
  generalize roundM (x.l0 * y.l0) (x.l0 * y.l1) (x.l0 * y.l2) (x.l0 * y.l3) ⟨0, 0, 0, 0⟩ = t1 at *
  rw [mulRound_eq x.l1 y t1 hx1 hy ok1]
  obtain ⟨ok2, r2, e2⟩ := roundM_step x.l1 y t1 hx1 hy hyr ok1 r1
  generalize roundM (x.l1 * y.l0) (x.l1 * y.l1) (x.l1 * y.l2) (x.l1 * y.l3) t1 = t2 at *
  rw [mulRound_eq x.l2 y t2 hx2 hy ok2]
  obtain ⟨ok3, r3, e3⟩ := roundM_step x.l2 y t2 hx2 hy hyr ok2 r2
  generalize roundM (x.l2 * y.l0) (x.l2 * y.l1) (x.l2 * y.l2) (x.l2 * y.l3) t2 = t3 at *
  rw [mulRound_eq x.l3 y t3 hx3 hy ok3]
  obtain ⟨ok4, r4, e4⟩ := roundM_step x.l3 y t3 hx3 hy hyr ok3 r3
  generalize roundM (x.l3 * y.l0) (x.l3 * y.l1) (x.l3 * y.l2) (x.l3 * y.l3) t3 = t4 at *
  obtain ⟨okr, hmod, hlt⟩ := C15.reduceG_correct t4 ok4 r4
  refine ⟨okr, hlt, ?_⟩
  rw [hmod, Nat.mod_mul_mod]
  have hxy : x.val * y.val = x.l0 * y.val + W * (x.l1 * y.val) + W * W * (x.l2 * y.val) + W * W * W * (x.l3 * y.val) := by
    unfold L4.val; ring
  rw [zero_ok.2] at e1
  have key : t4.val * (W * W * W * W) = x.val * y.val +
      (mOf (x.l0 * y.l0) 0 + W * mOf (x.l1 * y.l0) t1.l0 + W * W * mOf (x.l2 * y.l0) t2.l0 +
        W * W * W * mOf (x.l3 * y.l0) t3.l0) * R := by
    rw [hxy]
    have e1' : t1.val * W = x.l0 * y.val + mOf (x.l0 * y.l0) 0 * R := by rw [e1, Nat.zero_add]
    generalize mOf (x.l0 * y.l0) 0 = m0 at *
    generalize mOf (x.l1 * y.l0) t1.l0 = m1 at *
    generalize mOf (x.l2 * y.l0) t2.l0 = m2 at *
    generalize mOf (x.l3 * y.l0) t3.l0 = m3 at *
    generalize x.l0 * y.val = a0 at *
    generalize x.l1 * y.val = a1 at *
    generalize x.l2 * y.val = a2 at *
    generalize x.l3 * y.val = a3 at *
    have : t4.val * (W * W * W * W) = W * W * W * (t3.val + a3 + m3 * R) := by rw [← e4]; ring
    rw [this]
    have : W * W * W * t3.val = W * W * (t2.val + a2 + m2 * R) := by rw [← e3]; ring
    have h2 : W * W * t2.val = W * (t1.val + a1 + m1 * R) := by rw [← e2]; ring
    have h1 : W * t1.val = a0 + m0 * R := by rw [← e1']; ring
    calc W * W * W * (t3.val + a3 + m3 * R)
        = W * W * W * t3.val + W * W * W * a3 + W * W * W * m3 * R := by ring
      _ = W * W * (t2.val + a2 + m2 * R) + W * W * W * a3 + W * W * W * m3 * R := by rw [this]
      _ = W * W * t2.val + W * W * a2 + W * W * m2 * R + W * W * W * a3 + W * W * W * m3 * R := by ring
      _ = W * (t1.val + a1 + m1 * R) + W * W * a2 + W * W * m2 * R + W * W * W * a3 + W * W * W * m3 * R := by rw [h2]
      _ = W * t1.val + W * a1 + W * m1 * R + W * W * a2 + W * W * m2 * R + W * W * W * a3 + W * W * W * m3 * R := by ring
      _ = (a0 + m0 * R) + W * a1 + W * m1 * R + W * W * a2 + W * W * m2 * R + W * W * W * a3 + W * W * W * m3 * R := by rw [h1]
      _ = _ := by ring
  rw [key, Nat.add_mul_mod_self_right]

/-! ### `_fromMontGeneric` -/

def fmRoundM (z : L4) : L4 :=
  let m := (z.l0 * qInvNeg) % W
  let c0 := (m * q0 + z.l0) / W
  let b1 := m * q1 + z.l1 + c0
  let b2 := m * q2 + z.l2 + b1 / W
  let b3 := m * q3 + z.l3 + b2 / W
  ⟨b1 % W, b2 % W, b3 % W, b3 / W⟩

theorem fromMontRound_eq (z : L4) (hz : z.ok) : fromMontRound z = fmRoundM z := by
  obtain ⟨z0, z1, z2, z3⟩ := z
  obtain ⟨h0, h1, h2, h3⟩ := hz
  simp only at h0 h1 h2 h3
  obtain ⟨hq0, hq1, hq2, hq3⟩ := q_lt
  have hW : 0 < W := by decide
  unfold fromMontRound fmRoundM
  simp only
  have hm : z0 * qInvNeg % W < W := Nat.mod_lt _ hW
  generalize z0 * qInvNeg % W = m at *
  rw [madd0_spec m q0 z0 hm hq0 h0]
  have hc0 : (m * q0 + z0) / W < W := div_lt_W _ (by
    have := mul_bound _ q0 hm hq0
    unfold W at *; omega)
  rw [madd2_spec m q1 z1 _ hm hq1 h1 hc0]
  simp only
  generalize (m * q0 + z0) / W = c0 at *
  have hc1 : (m * q1 + z1 + c0) / W < W := div_lt_W _ (by
    have := mul_bound _ q1 hm hq1
    unfold W at *; omega)
  rw [madd2_spec m q2 z2 _ hm hq2 h2 hc1]
  simp only
  generalize m * q1 + z1 + c0 = b1 at *
  have hc2 : (m * q2 + z2 + b1 / W) / W < W := div_lt_W _ (by
    have := mul_bound _ q2 hm hq2
    unfold W at *; omega)
  rw [madd2_spec m q3 z3 _ hm hq3 h3 hc2]

/-- one reduction round: `z'·2^64 = z + m·q`, never overflowing -/
theorem fmRoundM_spec (z : L4) (hz : z.ok) :
    (fmRoundM z).ok ∧ (fmRoundM z).val * W = z.val + (z.l0 * qInvNeg % W) * R := by
  obtain ⟨z0, z1, z2, z3⟩ := z
  obtain ⟨h0, h1, h2, h3⟩ := hz
  unfold fmRoundM L4.ok L4.val R W q0 q1 q2 q3 qInvNeg at *
  simp only at *
  omega

/-- **`_fromMontGeneric`.** For every limb vector `z`: the result is fully reduced and
`fromMont(z)·2^256 ≡ z (mod q)`. -/
theorem fromMontG_correct (z : L4) (hz : z.ok) :
    (fromMontG z).ok ∧ (fromMontG z).val < R ∧ ((fromMontG z).val * (W * W * W * W)) % R = z.val % R := by
  unfold fromMontG
  have hW : 0 < W := by decide
  rw [fromMontRound_eq z hz]
  obtain ⟨ok1, e1⟩ := fmRoundM_spec z hz
  have m1 : z.l0 * qInvNeg % W < W := Nat.mod_lt _ hW
  generalize z.l0 * qInvNeg % W = k1 at *
  generalize fmRoundM z = z1 at *
  rw [fromMontRound_eq z1 ok1]
  obtain ⟨ok2, e2⟩ := fmRoundM_spec z1 ok1
  have m2 : z1.l0 * qInvNeg % W < W := Nat.mod_lt _ hW
  generalize z1.l0 * qInvNeg % W = k2 at *
  generalize fmRoundM z1 = z2 at *
  rw [fromMontRound_eq z2 ok2]
  obtain ⟨ok3, e3⟩ := fmRoundM_spec z2 ok2
  have m3 : z2.l0 * qInvNeg % W < W := Nat.mod_lt _ hW
  generalize z2.l0 * qInvNeg % W = k3 at *
  generalize fmRoundM z2 = z3 at *
  rw [fromMontRound_eq z3 ok3]
  obtain ⟨ok4, e4⟩ := fmRoundM_spec z3 ok3
  have m4 : z3.l0 * qInvNeg % W < W := Nat.mod_lt _ hW
  generalize z3.l0 * qInvNeg % W = k4 at *
  generalize fmRoundM z3 = z4 at *
  have hzv : z.val < W * W * W * W := by
    obtain ⟨h0, h1, h2, h3⟩ := hz
    unfold L4.val W at *; omega
  have key : z4.val * (W * W * W * W) = z.val + (k1 + W * k2 + W * W * k3 + W * W * W * k4) * R := by
    have h4 : z4.val * (W * W * W * W) = W * W * W * (z3.val + k4 * R) := by rw [← e4]; ring
    have h3 : W * W * W * z3.val = W * W * (z2.val + k3 * R) := by rw [← e3]; ring
    have h2 : W * W * z2.val = W * (z1.val + k2 * R) := by rw [← e2]; ring
    have h1 : W * z1.val = z.val + k1 * R := by rw [← e1]; ring
    calc z4.val * (W * W * W * W) = W * W * W * z3.val + W * W * W * k4 * R := by rw [h4]; ring
      _ = W * W * z2.val + W * W * k3 * R + W * W * W * k4 * R := by rw [h3]; ring
      _ = W * z1.val + W * k2 * R + W * W * k3 * R + W * W * W * k4 * R := by rw [h2]; ring
      _ = _ := by rw [h1]; ring
  have r4 : z4.val < 2 * R := by
    have hk : k1 + W * k2 + W * W * k3 + W * W * W * k4 ≤ W * W * W * W - 1 := by
      unfold W at *; omega
    have hkr := Nat.mul_le_mul_right R hk
    generalize (k1 + W * k2 + W * W * k3 + W * W * W * k4) * R = kr at *
    have hb : (W * W * W * W - 1) * R + W * W * W * W ≤ 2 * R * (W * W * W * W) - 1 := by decide
    generalize (W * W * W * W - 1) * R = c at *
    have hpos : 0 < W * W * W * W := by decide
    by_contra hge
    have : 2 * R * (W * W * W * W) ≤ z4.val * (W * W * W * W) := Nat.mul_le_mul_right _ (by omega)
    omega
  obtain ⟨okr, hmod, hlt⟩ := C15.reduceG_correct z4 ok4 r4
  refine ⟨okr, hlt, ?_⟩
  rw [hmod, Nat.mod_mul_mod, key, Nat.add_mul_mod_self_right]

/-! ### Montgomery form -/

/-- `2^256`, the Montgomery radix -/
def R256 : Nat := W * W * W * W

theorem coprime_radix : Nat.Coprime R256 R := by decide
theorem gcd_radix : Nat.gcd R R256 = 1 := by decide

/-- `x` is the Montgomery representation of the residue `a` -/
def Repr (x : L4) (a : Nat) : Prop := x.val ≡ a * R256 [MOD R]

/-- **`Mul` on Montgomery representations is multiplication modulo `r`.** -/
theorem mulG_repr (x y : L4) (a b : Nat) (hx : x.ok) (hy : y.ok) (hyr : y.val < R)
    (ha : Repr x a) (hb : Repr y b) : Repr (mulG x y) (a * b) ∧ (mulG x y).val < R ∧ (mulG x y).ok := by
  obtain ⟨ok, lt, h⟩ := mulG_correct x y hx hy hyr
  refine ⟨?_, lt, ok⟩
  unfold Repr at *
  have h1 : (mulG x y).val * R256 ≡ x.val * y.val [MOD R] := h
  have h2 : x.val * y.val ≡ (a * R256) * (b * R256) [MOD R] := Nat.ModEq.mul ha hb
  have h3 : (mulG x y).val * R256 ≡ (a * b * R256) * R256 [MOD R] := by
    refine (h1.trans h2).trans ?_
    rw [show a * R256 * (b * R256) = a * b * R256 * R256 by ring]
  exact Nat.ModEq.cancel_right_of_coprime gcd_radix h3

/-- **`FromMont` returns the residue itself.** -/
theorem fromMontG_repr (x : L4) (a : Nat) (hx : x.ok) (ha : Repr x a) :
    (fromMontG x).val = a % R ∧ (fromMontG x).ok := by
  obtain ⟨ok, lt, h⟩ := fromMontG_correct x hx
  refine ⟨?_, ok⟩
  have h1 : (fromMontG x).val * R256 ≡ x.val [MOD R] := h
  have h2 : (fromMontG x).val * R256 ≡ a * R256 [MOD R] := h1.trans ha
  have h3 : (fromMontG x).val ≡ a [MOD R] :=
    Nat.ModEq.cancel_right_of_coprime gcd_radix h2
  have : (fromMontG x).val % R = a % R := h3
  rw [← this, Nat.mod_eq_of_lt lt]

end GoIpa.Cios
