/-
  The prover's per-evaluation-point aggregation (`groupPolynomialsByEvaluationPoint`) for an
  arbitrary worker count and arrival order equals the sequential specification.
-/
import Mathlib.Tactic.Ring
import Mathlib.Tactic.Abel
import Mathlib.Algebra.BigOperators.Group.List.Basic
import Mathlib.Algebra.Field.Basic
import GoIpa.Model.Multiproof
namespace GoIpa.Grouping
open GoIpa

variable {F : Type} [Field F] [DecidableEq F]

/-- is group `z` present? -/
def defined (g : Groups F) (z : Nat) : Bool := (g.getD z none).isSome
/-- coordinate `j` of group `z` (0 when absent) -/
def coord (g : Groups F) (z j : Nat) : F := ((g.getD z none).getD []).getD j 0

/-- well-formed table: `N` slots, every present vector of length `N` -/
def WF (N : Nat) (g : Groups F) : Prop := g.length = N ∧ ∀ z v, g.getD z none = some v → v.length = N

theorem wf_empty (N : Nat) : WF N (Groups.empty N : Groups F) := by
  refine ⟨by simp [Groups.empty], ?_⟩
  intro z v h
  simp [Groups.empty, List.getD_eq_getElem?_getD, List.getElem?_replicate] at h
  split at h <;> simp at h

theorem defined_empty (N z : Nat) : defined (Groups.empty N : Groups F) z = false := by
  simp [defined, Groups.empty, List.getD_eq_getElem?_getD, List.getElem?_replicate]
  split <;> simp

theorem coord_empty (N z j : Nat) : coord (Groups.empty N : Groups F) z j = 0 := by
  simp [coord, Groups.empty, List.getD_eq_getElem?_getD, List.getElem?_replicate]
  split <;> simp

theorem addVec_getD (u v : List F) (h : u.length = v.length) (j : Nat) :
    (addVec u v).getD j 0 = u.getD j 0 + v.getD j 0 := by
  unfold addVec
  simp only [List.getD_eq_getElem?_getD, List.getElem?_zipWith]
  by_cases hj : j < u.length
  · have hj' : j < v.length := by omega
    simp [List.getElem?_eq_getElem hj, List.getElem?_eq_getElem hj']
  · have hj' : ¬ j < v.length := by omega
    simp [List.getElem?_eq_none (by omega : u.length ≤ j), List.getElem?_eq_none (by omega : v.length ≤ j)]

theorem addVec_length (u v : List F) : (addVec u v).length = min u.length v.length := by
  simp [addVec]

theorem getD_set_self {α : Type} (l : List α) (i : Nat) (h : i < l.length) (v d : α) : (l.set i v).getD i d = v := by
  rw [List.getD_eq_getElem?_getD, List.getElem?_set_self h]; rfl

theorem getD_set_ne {α : Type} (l : List α) (i j : Nat) (h : i ≠ j) (v d : α) : (l.set i v).getD j d = l.getD j d := by
  rw [List.getD_eq_getElem?_getD, List.getElem?_set_ne h, ← List.getD_eq_getElem?_getD]

theorem scaleVec_getD (r : F) (f : List F) (j : Nat) : (scaleVec r f).getD j 0 = r * f.getD j 0 := by
  unfold scaleVec
  rw [List.getD_eq_getElem?_getD, List.getElem?_map, List.getD_eq_getElem?_getD]
  cases f[j]? <;> simp

theorem replicate_getD_zero (N j : Nat) : (List.replicate N (0 : F)).getD j 0 = 0 := by
  rw [List.getD_eq_getElem?_getD, List.getElem?_replicate]
  split <;> simp

/-- one accumulation step -/
theorem accum_spec (N : Nat) (g : Groups F) (hg : WF N g) (z : Nat) (hz : z < N) (r : F) (f : List F) (hf : f.length = N) :
    WF N (Groups.accum N g z r f) ∧
    (∀ z', defined (Groups.accum N g z r f) z' = (defined g z' || decide (z' = z))) ∧
    (∀ z' j, coord (Groups.accum N g z r f) z' j = coord g z' j + (if z' = z then r * f.getD j 0 else 0)) := by
  obtain ⟨hl, hv⟩ := hg
  have hzl : z < g.length := by omega
  have hbase : ((g.getD z none).getD (List.replicate N 0)).length = N := by
    cases hgz : g.getD z none with
    | none => simp
    | some v => simpa using hv z v hgz
  have hsc : (scaleVec r f).length = N := by simp [scaleVec, hf]
  have hnew : (addVec ((g.getD z none).getD (List.replicate N 0)) (scaleVec r f)).length = N := by
    rw [addVec_length, hbase, hsc]; simp
  refine ⟨⟨by simp [Groups.accum, hl], ?_⟩, ?_, ?_⟩
  · intro z' v h
    unfold Groups.accum at h
    by_cases e : z = z'
    · subst e
      rw [getD_set_self _ _ hzl] at h
      simp only [Option.some.injEq] at h
      rw [← h]; exact hnew
    · rw [getD_set_ne _ _ _ e] at h
      exact hv z' v h
  · intro z'
    unfold defined Groups.accum
    by_cases e : z = z'
    · subst e
      rw [getD_set_self _ _ hzl]; simp
    · rw [getD_set_ne _ _ _ e]
      have : ¬ z' = z := fun h => e h.symm
      simp [this]
  · intro z' j
    unfold coord Groups.accum
    by_cases e : z = z'
    · subst e
      rw [getD_set_self _ _ hzl]
      simp only [Option.getD_some, ↓reduceIte]
      rw [addVec_getD _ _ (by rw [hbase, hsc]), scaleVec_getD]
      congr 1
      cases hgz : g.getD z none with
      | none => simp only [Option.getD_none]; rw [replicate_getD_zero]; simp
      | some v => simp
    · rw [getD_set_ne _ _ _ e]
      have : ¬ z' = z := fun h => e h.symm
      simp [this]

/-- the contribution of a list of opening indices to group `z`, coordinate `j` -/
def contrib (fs : List (List F)) (pows : List F) (zs : List Nat) (I : List Nat) (z j : Nat) : F :=
  ((I.filter fun i => zs.getD i 0 = z).map fun i => pows.getD i 0 * (fs.getD i []).getD j 0).sum

theorem contrib_nil (fs : List (List F)) (pows : List F) (zs : List Nat) (z j : Nat) : contrib fs pows zs [] z j = 0 := by
  simp [contrib]

theorem contrib_cons (fs : List (List F)) (pows : List F) (zs : List Nat) (i : Nat) (I : List Nat) (z j : Nat) :
    contrib fs pows zs (i :: I) z j =
      (if zs.getD i 0 = z then pows.getD i 0 * (fs.getD i []).getD j 0 else 0) + contrib fs pows zs I z j := by
  unfold contrib
  by_cases h : zs.getD i 0 = z
  · rw [List.filter_cons_of_pos (by simpa using h)]
    simp only [List.map_cons, List.sum_cons, h, ↓reduceIte]
  · rw [List.filter_cons_of_neg (by simpa using h)]
    simp only [h, ↓reduceIte, zero_add]

theorem contrib_append (fs : List (List F)) (pows : List F) (zs : List Nat) (I J : List Nat) (z j : Nat) :
    contrib fs pows zs (I ++ J) z j = contrib fs pows zs I z j + contrib fs pows zs J z j := by
  simp [contrib, List.filter_append]

theorem contrib_perm (fs : List (List F)) (pows : List F) (zs : List Nat) (I J : List Nat) (h : I.Perm J) (z j : Nat) :
    contrib fs pows zs I z j = contrib fs pows zs J z j := by
  unfold contrib
  exact ((h.filter _).map _).sum_eq

/-- good inputs: every opening index in `I` has an evaluation point `< N` and a polynomial of
length `N` -/
def Good (N : Nat) (fs : List (List F)) (zs : List Nat) (I : List Nat) : Prop :=
  ∀ i ∈ I, zs.getD i 0 < N ∧ (fs.getD i []).length = N

/-- accumulating a list of openings, in order, from a well-formed table -/
theorem fold_accum_spec (N : Nat) (fs : List (List F)) (pows : List F) (zs : List Nat) :
    ∀ (I : List Nat) (g : Groups F), WF N g → Good N fs zs I →
      let r := I.foldl (fun g i => Groups.accum N g (zs.getD i 0) (pows.getD i 0) (fs.getD i [])) g
      WF N r ∧ (∀ z, defined r z = (defined g z || I.any fun i => zs.getD i 0 = z)) ∧
        (∀ z j, coord r z j = coord g z j + contrib fs pows zs I z j) := by
  intro I
  induction I with
  | nil => intro g hg _; simp [contrib_nil, hg]
  | cons i I ih =>
    intro g hg hgood
    obtain ⟨hz, hf⟩ := hgood i (by simp)
    obtain ⟨w1, d1, c1⟩ := accum_spec N g hg (zs.getD i 0) hz (pows.getD i 0) (fs.getD i []) hf
    obtain ⟨w2, d2, c2⟩ := ih _ w1 (fun k hk => hgood k (by simp [hk]))
    simp only [List.foldl_cons]
    refine ⟨w2, ?_, ?_⟩
    · intro z
      rw [d2 z, d1 z]
      simp only [List.any_cons, Bool.or_assoc]
      congr 2
      by_cases e : z = zs.getD i 0
      · subst e; simp only [decide_true]
      · have e' : ¬ zs.getD i 0 = z := fun h => e h.symm
        simp only [e, e', decide_false]
    · intro z j
      rw [c2 z j, c1 z j, contrib_cons]
      by_cases e : z = zs.getD i 0
      · subst e
        simp only [↓reduceIte]
        ring
      · have e' : ¬ zs.getD i 0 = z := fun h => e h.symm
        simp only [e, e', ↓reduceIte]
        ring

/-- merging two well-formed tables adds them point-wise -/
theorem merge_spec (N : Nat) (a b : Groups F) (ha : WF N a) (hb : WF N b) :
    WF N (mergeGroups a b) ∧ (∀ z, defined (mergeGroups a b) z = (defined a z || defined b z)) ∧
      (∀ z j, coord (mergeGroups a b) z j = coord a z j + coord b z j) := by
  obtain ⟨la, va⟩ := ha
  obtain ⟨lb, vb⟩ := hb
  have hget : ∀ z, (mergeGroups a b).getD z none =
      (match b.getD z none, a.getD z none with
        | none, x => x
        | some v, none => some v
        | some v, some u => some (addVec u v)) := by
    intro z
    unfold mergeGroups
    rw [List.getD_eq_getElem?_getD, List.getElem?_zipWith]
    by_cases hz : z < N
    · have h1 : z < a.length := by omega
      have h2 : z < b.length := by omega
      simp only [List.getD_eq_getElem?_getD, List.getElem?_eq_getElem h1, List.getElem?_eq_getElem h2,
        Option.map₂_some_some, Option.getD_some]
      cases b[z] <;> cases a[z] <;> rfl
    · have h1 : a.length ≤ z := by omega
      have h2 : b.length ≤ z := by omega
      simp [List.getD_eq_getElem?_getD, List.getElem?_eq_none h1, List.getElem?_eq_none h2]
  refine ⟨⟨by simp [mergeGroups, la, lb], ?_⟩, ?_, ?_⟩
  · intro z v h
    rw [hget] at h
    cases hbz : b.getD z none with
    | none => rw [hbz] at h; exact va z v h
    | some w =>
      rw [hbz] at h
      cases haz : a.getD z none with
      | none => rw [haz] at h; simp only [Option.some.injEq] at h; rw [← h]; exact vb z w hbz
      | some u =>
        rw [haz] at h
        simp only [Option.some.injEq] at h
        rw [← h, addVec_length, va z u haz, vb z w hbz]; simp
  · intro z
    unfold defined
    rw [hget]
    cases b.getD z none <;> cases a.getD z none <;> rfl
  · intro z j
    unfold coord
    rw [hget]
    cases hbz : b.getD z none with
    | none => simp
    | some w =>
      cases haz : a.getD z none with
      | none => simp
      | some u =>
        simp only [Option.getD_some]
        exact addVec_getD u w (by rw [va z u haz, vb z w hbz]) j

/-- the opening indices worker `[start, stop)` handles (clamped to `n`) -/
def workerIdx (n start stop : Nat) : List Nat := (List.range (min stop n - start)).map (· + start)

theorem workerGroups_eq (N : Nat) (fs : List (List F)) (pows : List F) (zs : List Nat) (start stop : Nat) :
    workerGroups N fs pows zs start stop =
      (workerIdx fs.length start stop).foldl (fun g i => Groups.accum N g (zs.getD i 0) (pows.getD i 0) (fs.getD i []))
        (Groups.empty N) := rfl

theorem workerIdx_mem (n start stop i : Nat) (h : i ∈ workerIdx n start stop) : i < n := by
  unfold workerIdx at h
  simp only [List.mem_map, List.mem_range] at h
  obtain ⟨k, hk, rfl⟩ := h
  omega

/-- merging the workers' tables in the order `order` -/
theorem fold_merge_spec (N : Nat) (fs : List (List F)) (pows : List F) (zs : List Nat) (b : Nat)
    (hgood : Good N fs zs (List.range fs.length)) :
    ∀ (order : List Nat) (agg : Groups F), WF N agg →
      let r := order.foldl (fun agg i => mergeGroups agg (workerGroups N fs pows zs (i * b) ((i + 1) * b))) agg
      WF N r ∧
      (∀ z, defined r z = (defined agg z ||
        (order.flatMap fun k => workerIdx fs.length (k * b) ((k + 1) * b)).any fun i => zs.getD i 0 = z)) ∧
      (∀ z j, coord r z j = coord agg z j +
        contrib fs pows zs (order.flatMap fun k => workerIdx fs.length (k * b) ((k + 1) * b)) z j) := by
  intro order
  induction order with
  | nil => intro agg hw; simp [contrib_nil, hw]
  | cons k order ih =>
    intro agg hw
    have hgk : Good N fs zs (workerIdx fs.length (k * b) ((k + 1) * b)) := by
      intro i hi
      exact hgood i (List.mem_range.mpr (workerIdx_mem _ _ _ _ hi))
    obtain ⟨w1, d1, c1⟩ := fold_accum_spec N fs pows zs _ _ (wf_empty N) hgk
    rw [← workerGroups_eq] at w1 d1 c1
    obtain ⟨w2, d2, c2⟩ := merge_spec N agg _ hw w1
    obtain ⟨w3, d3, c3⟩ := ih _ w2
    simp only [List.foldl_cons, List.flatMap_cons]
    refine ⟨w3, ?_, ?_⟩
    · intro z
      rw [d3 z, d2 z, d1 z, defined_empty, List.any_append]
      simp only [Bool.false_or, Bool.or_assoc]
    · intro z j
      rw [c3 z j, c2 z j, c1 z j, coord_empty, contrib_append]
      ring

theorem range_flatMap_workerIdx (n b : Nat) : ∀ w : Nat,
    (List.range w).flatMap (fun k => workerIdx n (k * b) ((k + 1) * b)) = List.range (min (w * b) n) := by
  intro w
  induction w with
  | zero => simp
  | succ w ih =>
    rw [List.range_succ, List.flatMap_append, ih]
    simp only [List.flatMap_cons, List.flatMap_nil, List.append_nil]
    unfold workerIdx
    have hle : min (w * b) n ≤ min ((w + 1) * b) n := by
      have : w * b ≤ (w + 1) * b := Nat.mul_le_mul_right b (by omega)
      omega
    by_cases hcase : w * b ≤ n
    · have e1 : min (w * b) n = w * b := by omega
      rw [e1]
      have e2 : min ((w + 1) * b) n = w * b + (min ((w + 1) * b) n - w * b) := by
        have : w * b ≤ (w + 1) * b := Nat.mul_le_mul_right b (by omega)
        omega
      conv_rhs => rw [e2, List.range_add]
      congr 1
      apply List.map_congr_left
      intro i _; omega
    · have e1 : min (w * b) n = n := by omega
      have e2 : min ((w + 1) * b) n = n := by
        have : w * b ≤ (w + 1) * b := Nat.mul_le_mul_right b (by omega)
        omega
      rw [e1, e2]
      have : n - w * b = 0 := by omega
      simp [this]

theorem batch_covers (n w : Nat) (hw : 1 ≤ w) : n ≤ w * ((n + w - 1) / w) := by
  have h := Nat.lt_div_mul_add (a := n + w - 1) (b := w) (by omega)
  rw [Nat.mul_comm]
  omega

/-- **Grouping is independent of the worker count and of the arrival order.** For every number
of workers `w ≥ 1` and every order in which their results arrive, the aggregated table has a
vector exactly at the evaluation points that occur, and that vector is `Σ_{zᵢ = z} rⁱ • fᵢ`
over all openings — none lost, none counted twice. -/
theorem group_spec (N : Nat) (fs : List (List F)) (pows : List F) (zs : List Nat)
    (hgood : Good N fs zs (List.range fs.length)) (w : Nat) (hw : 1 ≤ w) (order : List Nat)
    (hperm : order.Perm (List.range w)) :
    WF N (groupPolys N fs pows zs w order) ∧
    (∀ z, defined (groupPolys N fs pows zs w order) z = (List.range fs.length).any fun i => zs.getD i 0 = z) ∧
    (∀ z j, coord (groupPolys N fs pows zs w order) z j = contrib fs pows zs (List.range fs.length) z j) := by
  set b := (fs.length + w - 1) / w with hb
  obtain ⟨w1, d1, c1⟩ := fold_merge_spec N fs pows zs b hgood order _ (wf_empty N)
  have hflat : (order.flatMap fun k => workerIdx fs.length (k * b) ((k + 1) * b)).Perm (List.range fs.length) := by
    have h1 := hperm.flatMap_right (fun k => workerIdx fs.length (k * b) ((k + 1) * b))
    rw [range_flatMap_workerIdx] at h1
    have : min (w * b) fs.length = fs.length := by
      have := batch_covers fs.length w hw
      rw [← hb] at this
      omega
    rw [this] at h1
    exact h1
  refine ⟨w1, ?_, ?_⟩
  · intro z
    show defined (order.foldl _ _) z = _
    rw [d1 z, defined_empty, Bool.false_or]
    exact hflat.any_eq
  · intro z j
    show coord (order.foldl _ _) z j = _
    rw [c1 z j, coord_empty, zero_add]
    exact contrib_perm fs pows zs _ _ hflat z j

/-- extensionality of well-formed tables -/
theorem groups_ext (N : Nat) (a b : Groups F) (ha : WF N a) (hb : WF N b)
    (hd : ∀ z, defined a z = defined b z) (hc : ∀ z j, coord a z j = coord b z j) : a = b := by
  apply List.ext_getElem (by rw [ha.1, hb.1])
  intro z h1 h2
  have ea : a.getD z none = a[z] := by simp [List.getD_eq_getElem?_getD, h1]
  have eb : b.getD z none = b[z] := by simp [List.getD_eq_getElem?_getD, h2]
  have hdz := hd z
  have hcz := hc z
  unfold defined at hdz
  unfold coord at hcz
  rw [ea, eb] at hdz hcz
  cases hav : a[z] with
  | none =>
    cases hbv : b[z] with
    | none => rfl
    | some v => rw [hav, hbv] at hdz; simp at hdz
  | some u =>
    cases hbv : b[z] with
    | none => rw [hav, hbv] at hdz; simp at hdz
    | some v =>
      congr 1
      have lu : u.length = N := ha.2 z u (by rw [ea, hav])
      have lv : v.length = N := hb.2 z v (by rw [eb, hbv])
      apply List.ext_getElem (by rw [lu, lv])
      intro j j1 j2
      have := hcz j
      rw [hav, hbv] at this
      simpa [List.getD_eq_getElem?_getD, j1, j2] using this

/-- two runs with different worker counts and arrival orders produce the same table -/
theorem group_worker_invariant (N : Nat) (fs : List (List F)) (pows : List F) (zs : List Nat)
    (hgood : Good N fs zs (List.range fs.length)) (w1 w2 : Nat) (h1 : 1 ≤ w1) (h2 : 1 ≤ w2)
    (o1 o2 : List Nat) (p1 : o1.Perm (List.range w1)) (p2 : o2.Perm (List.range w2)) :
    groupPolys N fs pows zs w1 o1 = groupPolys N fs pows zs w2 o2 := by
  obtain ⟨a1, a2, a3⟩ := group_spec N fs pows zs hgood w1 h1 o1 p1
  obtain ⟨b1, b2, b3⟩ := group_spec N fs pows zs hgood w2 h2 o2 p2
  exact groups_ext N _ _ a1 b1 (fun z => by rw [a2, b2]) (fun z j => by rw [a3, b3])

end GoIpa.Grouping
