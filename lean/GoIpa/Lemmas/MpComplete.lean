/-
  Multiproof completeness, assembled: grouping, compaction, quotient evaluation, linearity of
  the commitment, IPA completeness and equality of the two transcripts.
-/
import GoIpa.Lemmas.MpAlgebra
import GoIpa.Props.C01
namespace GoIpa.Mp
open GoIpa GoIpa.Grouping

variable {F G : Type} [Field F] [DecidableEq F] [AddCommGroup G] [Module F G]
variable (enc : Enc F G)

/-- the statement as both sides absorb it: separator, then `C`, `z`, `y` of every opening -/
def absorbStmt (tr : Tr) (Cs : List G) (ys : List F) (zs : List Nat) : Tr :=
  (List.zip Cs (List.zip ys zs)).foldl (fun (tr : Tr) (e : G × F × Nat) =>
      ((tr.appendPoint enc e.1 Label.C).appendScalar enc ((e.2.2 : Nat) : F) Label.z).appendScalar enc e.2.1 Label.y)
    (tr.domainSep Label.multiproof)

/-- the claimed values of an honest statement -/
def honestYs (fs : List (List F)) (zs : List Nat) : List F := List.zipWith (fun f z => f.getD z 0) fs zs

/-- the prover absorbs exactly the statement with the honest values -/
theorem prover_absorb (tr0 : Tr) (Cs : List G) (fs : List (List F)) (zs : List Nat) :
    (List.zip Cs (List.zip fs zs)).foldl (fun (tr : Tr) (e : G × List F × Nat) =>
        let tr := tr.appendPoint enc e.1 Label.C
        let tr := tr.appendScalar enc ((e.2.2 : Nat) : F) Label.z
        tr.appendScalar enc (e.2.1.getD e.2.2 0) Label.y) tr0
      = (List.zip Cs (List.zip (honestYs fs zs) zs)).foldl (fun (tr : Tr) (e : G × F × Nat) =>
        ((tr.appendPoint enc e.1 Label.C).appendScalar enc ((e.2.2 : Nat) : F) Label.z).appendScalar enc e.2.1 Label.y) tr0 := by
  induction Cs generalizing tr0 fs zs with
  | nil => simp
  | cons c Cs ih =>
    cases fs with
    | nil => simp [honestYs]
    | cons f fs =>
      cases zs with
      | nil => simp [honestYs]
      | cons z zs =>
        simp only [honestYs, List.zipWith_cons_cons, List.zip_cons_cons, List.foldl_cons]
        exact ih _ fs zs

/-- everything the prover has computed when it starts the inner-product argument -/
structure ProverState (F G : Type) where
  r : F
  t : F
  g : List F
  h : List F
  D : G
  E : G
  tr : Tr

/-- the prover up to (and excluding) the inner-product argument -/
def proverState (cfg : IpaCfg F G) (tr : Tr) (Cs : List G) (fs : List (List F)) (zs : List Nat)
    (w : Nat) (order : List Nat) : ProverState F G :=
  let N := cfg.N
  let tr := absorbStmt enc tr Cs (honestYs fs zs) zs
  let rc := tr.challenge enc Label.r
  let pows := powersOf rc.1 Cs.length
  let groups := groupPolys N fs pows zs w order
  let g := sumVecs N ((present groups 0).map fun e => cfg.weights.divideOnDomain N e.1 e.2)
  let D := msm cfg.srs g
  let tc := (rc.2.appendPoint enc D Label.D).challenge enc Label.t
  let h := sumVecs N ((present groups 0).map fun e => e.2.map (· * (tc.1 - ((e.1 : Nat) : F))⁻¹))
  let E := msm cfg.srs h
  ⟨rc.1, tc.1, g, h, D, E, tc.2.appendPoint enc E Label.E⟩

theorem g_fold (cfg : IpaCfg F G) (groups : Groups F) :
    (List.zipIdx groups).foldl (fun (g : List F) (e : Option (List F) × Nat) =>
        (e.1.map fun f => addVec g (cfg.weights.divideOnDomain cfg.N e.2 f)).getD g) (List.replicate cfg.N 0)
      = sumVecs cfg.N ((present groups 0).map fun e => cfg.weights.divideOnDomain cfg.N e.1 e.2) :=
  fold_groups_eq groups 0 (fun z f => cfg.weights.divideOnDomain cfg.N z f) _

theorem h_fold (N : Nat) (groups : Groups F) (t : F) :
    (List.zip (groups.filterMap id) (batchInvert ((List.zipIdx groups).filterMap (fun (e : Option (List F) × Nat) =>
        e.1.map fun _ => t - ((e.2 : Nat) : F))))).foldl
        (fun (h : List F) (e : List F × F) => addVec h (e.1.map (· * e.2))) (List.replicate N 0)
      = sumVecs N ((present groups 0).map fun e => e.2.map (· * (t - ((e.1 : Nat) : F))⁻¹)) := by
  have := C01.h_fold_eq groups t (List.replicate N (0 : F))
  unfold C01.densOf at this
  rw [this]
  exact fold_groups_eq groups 0 (fun z f => f.map (· * (t - ((z : Nat) : F))⁻¹)) _

/-- `CreateMultiProof` is the prover state followed by the inner-product argument -/
theorem mpProve_eq (cfg : IpaCfg F G) (tr : Tr) (Cs : List G) (fs : List (List F)) (zs : List Nat)
    (w : Nat) (order : List Nat) :
    mpProve enc cfg tr Cs fs zs w order =
      (let s := proverState enc cfg tr Cs fs zs w order
       let p := ipaProve enc cfg s.tr (s.E - s.D) (List.zipWith (· - ·) s.h s.g) s.t
       (p.1.map (fun ip => (⟨ip, s.D⟩ : MultiProof F G)), p.2)) := by
  unfold mpProve proverState absorbStmt
  simp only [prover_absorb, g_fold, h_fold]

/-! ### what the grouped table contains -/

theorem present_facts (N : Nat) (fs : List (List F)) (pows : List F) (zs : List Nat)
    (hgood : Good N fs zs (List.range fs.length)) (w : Nat) (hw : 1 ≤ w) (order : List Nat)
    (hperm : order.Perm (List.range w)) (z : Nat) (f : List F)
    (hm : (z, f) ∈ present (groupPolys N fs pows zs w order) 0) :
    z < N ∧ f.length = N ∧ (∃ i, i < fs.length ∧ zs.getD i 0 = z) ∧
      ∀ j, f.getD j 0 = contrib fs pows zs (List.range fs.length) z j := by
  obtain ⟨wf, hd, hcoord⟩ := group_spec N fs pows zs hgood w hw order hperm
  rw [present_mem] at hm
  obtain ⟨_, hget, hlt⟩ := hm
  simp only [Nat.sub_zero] at hget hlt
  refine ⟨by rw [← wf.1]; exact hlt, wf.2 z f hget, ?_, ?_⟩
  · have := hd z
    unfold defined at this
    rw [hget] at this
    simp only [Option.isSome_some] at this
    obtain ⟨i, hi, hz⟩ := List.any_eq_true.mp this.symm
    exact ⟨i, List.mem_range.mp hi, by simpa using hz⟩
  · intro j
    have := hcoord z j
    unfold coord at this
    rw [hget] at this
    simpa using this

/-- the (t − z)⁻¹-weighted sum over the present groups, regrouped over the openings -/
theorem sum_present_regroup (N : Nat) (fs : List (List F)) (pows : List F) (zs : List Nat)
    (hgood : Good N fs zs (List.range fs.length)) (w : Nat) (hw : 1 ≤ w) (order : List Nat)
    (hperm : order.Perm (List.range w)) (ψ : Nat → F) (j : Nat → Nat) :
    ((present (groupPolys N fs pows zs w order) 0).map fun e => ψ e.1 * e.2.getD (j e.1) 0).sum =
      ((List.range fs.length).map fun i =>
        ψ (zs.getD i 0) * (pows.getD i 0 * (fs.getD i []).getD (j (zs.getD i 0)) 0)).sum := by
  obtain ⟨wf, hd, hcoord⟩ := group_spec N fs pows zs hgood w hw order hperm
  rw [sum_present _ 0 (fun z f => ψ z * f.getD (j z) 0) (by intro z; simp)]
  rw [wf.1]
  rw [← regroup N fs pows zs ψ j (List.range fs.length) (fun i hi => (hgood i hi).1)]
  apply congrArg
  apply List.map_congr_left
  intro z _
  simp only [Nat.add_zero]
  congr 1
  have := hcoord z (j z)
  unfold coord at this
  exact this

theorem map_mul_getD (l : List F) (c : F) (j : Nat) : (l.map (· * c)).getD j 0 = l.getD j 0 * c := by
  rw [List.getD_eq_getElem?_getD, List.getElem?_map, List.getD_eq_getElem?_getD]
  cases l[j]? <;> simp

theorem powersFrom_length (x cur : F) (n : Nat) : (powersFrom x cur n).length = n := by
  induction n generalizing cur with
  | zero => rfl
  | succ n ih => simp [powersFrom, ih]

theorem powersOf_length (x : F) (n : Nat) : (powersOf x n).length = n := powersFrom_length x 1 n

theorem list_sum_map_sub {α : Type} (l : List α) (a b : α → F) :
    (l.map fun e => a e - b e).sum = (l.map a).sum - (l.map b).sum := by
  induction l with
  | nil => simp
  | cons x xs ih => simp only [List.map_cons, List.sum_cons, ih]; ring

/-- the verifier's MSM scalars `rⁱ / (t − zᵢ)` -/
def mpScalars (pows : List F) (zs : List Nat) (t : F) : List F :=
  List.zipWith (fun (p : F) (z : Nat) => p * (t - ((z : Nat) : F))⁻¹) pows zs

section prover
variable (cfg : IpaCfg F G) (hc : CfgOk cfg) (fs : List (List F)) (pows : List F) (zs : List Nat)
  (hl : fs.length = zs.length) (hp : pows.length = fs.length)
  (hgood : Good cfg.N fs zs (List.range fs.length)) (w : Nat) (hw : 1 ≤ w) (order : List Nat)
  (hperm : order.Perm (List.range w)) (t : F)
include hl hp hgood hw hperm

/-- **`h = Σᵢ rⁱ/(t − zᵢ) • fᵢ`** — the compacted-denominator accumulation over the grouped
table is the linear combination over the openings. -/
theorem h_eq_lincomb :
    sumVecs cfg.N ((present (groupPolys cfg.N fs pows zs w order) 0).map
        fun e => e.2.map (· * (t - ((e.1 : Nat) : F))⁻¹))
      = lincomb cfg.N (mpScalars pows zs t) fs := by
  have hlenF : ∀ v ∈ fs, v.length = cfg.N := by
    intro v hv
    obtain ⟨i, hi, rfl⟩ := List.getElem_of_mem hv
    have := (hgood i (List.mem_range.mpr hi)).2
    simpa [List.getD_eq_getElem?_getD, hi] using this
  have hvs : ∀ v ∈ (present (groupPolys cfg.N fs pows zs w order) 0).map
      (fun e => e.2.map (· * (t - ((e.1 : Nat) : F))⁻¹)), v.length = cfg.N := by
    intro v hv
    obtain ⟨e, he, rfl⟩ := List.mem_map.mp hv
    simp only [List.length_map]
    exact (present_facts cfg.N fs pows zs hgood w hw order hperm e.1 e.2 he).2.1
  obtain ⟨l1, c1⟩ := sumVecs_spec cfg.N _ hvs
  obtain ⟨l2, c2⟩ := lincomb_spec cfg.N (mpScalars pows zs t) fs hlenF
  apply List.ext_getElem (by rw [l1, l2])
  intro j h1 h2
  have e1 := c1 j
  have e2 := c2 j
  rw [List.getD_eq_getElem?_getD, List.getElem?_eq_getElem h1] at e1
  rw [List.getD_eq_getElem?_getD, List.getElem?_eq_getElem h2] at e2
  simp only [Option.getD_some] at e1 e2
  rw [e1, e2, List.map_map]
  have hsum := sum_present_regroup cfg.N fs pows zs hgood w hw order hperm
    (fun z => (t - ((z : Nat) : F))⁻¹) (fun _ => j)
  have hL : (List.map ((fun v => v.getD j 0) ∘ fun e => List.map (fun x => x * (t - ((e.1 : Nat) : F))⁻¹) e.2)
      (present (groupPolys cfg.N fs pows zs w order) 0)).sum =
      ((present (groupPolys cfg.N fs pows zs w order) 0).map fun e => (t - ((e.1 : Nat) : F))⁻¹ * e.2.getD j 0).sum := by
    apply congrArg
    apply List.map_congr_left
    intro e _
    simp only [Function.comp, map_mul_getD]; ring
  rw [hL, hsum]
  have hml : (mpScalars pows zs t).length = fs.length := by simp [mpScalars, hp, hl]
  rw [zipWith_sum_range (fun s v => s * v.getD j 0) (mpScalars pows zs t) fs 0 [] hml, hml]
  apply congrArg
  apply List.map_congr_left
  intro i hi
  have hi' : i < fs.length := List.mem_range.mp hi
  have hsc : (mpScalars pows zs t).getD i 0 = pows.getD i 0 * (t - ((zs.getD i 0 : Nat) : F))⁻¹ := by
    unfold mpScalars
    rw [List.getD_eq_getElem?_getD, List.getElem?_zipWith]
    have h1 : i < pows.length := by omega
    have h2 : i < zs.length := by omega
    simp [List.getElem?_eq_getElem h1, List.getElem?_eq_getElem h2, List.getD_eq_getElem?_getD]
  rw [hsc]; ring

include hc in
/-- **`(h − g)(t) = Σᵢ rⁱ yᵢ/(t − zᵢ)`** for every challenge `t` that is not an opened point. -/
theorem ev_h_minus_g (ht : ∀ i, i < fs.length → t ≠ ((zs.getD i 0 : Nat) : F)) :
    ev cfg t (List.zipWith (· - ·)
        (sumVecs cfg.N ((present (groupPolys cfg.N fs pows zs w order) 0).map
          fun e => e.2.map (· * (t - ((e.1 : Nat) : F))⁻¹)))
        (sumVecs cfg.N ((present (groupPolys cfg.N fs pows zs w order) 0).map
          fun e => cfg.weights.divideOnDomain cfg.N e.1 e.2)))
      = ((List.range fs.length).map fun i =>
          (t - ((zs.getD i 0 : Nat) : F))⁻¹ * (pows.getD i 0 * (fs.getD i []).getD (zs.getD i 0) 0)).sum := by
  set P := present (groupPolys cfg.N fs pows zs w order) 0 with hP
  have hfacts := fun e (he : e ∈ P) => present_facts cfg.N fs pows zs hgood w hw order hperm e.1 e.2 he
  have hvh : ∀ v ∈ P.map (fun e => e.2.map (· * (t - ((e.1 : Nat) : F))⁻¹)), v.length = cfg.N := by
    intro v hv
    obtain ⟨e, he, rfl⟩ := List.mem_map.mp hv
    simp only [List.length_map]; exact (hfacts e he).2.1
  have hvg : ∀ v ∈ P.map (fun e => cfg.weights.divideOnDomain cfg.N e.1 e.2), v.length = cfg.N := by
    intro v hv
    obtain ⟨e, _, rfl⟩ := List.mem_map.mp hv
    exact divide_length _ _ _ _
  unfold ev
  rw [innerProd_subVec _ _ _ (by rw [(sumVecs_spec cfg.N _ hvh).1, (sumVecs_spec cfg.N _ hvg).1])]
  have e1 := ev_sumVecs cfg t cfg.N _ hvh
  have e2 := ev_sumVecs cfg t cfg.N _ hvg
  unfold ev at e1 e2
  rw [e1, e2, List.map_map, List.map_map, ← list_sum_map_sub]
  have hreg := sum_present_regroup cfg.N fs pows zs hgood w hw order hperm (fun z => (t - ((z : Nat) : F))⁻¹) id
  simp only [id] at hreg
  rw [← hreg]
  apply congrArg
  apply List.map_congr_left
  intro e he
  obtain ⟨hz, hlen, ⟨i, hi, hzi⟩, _⟩ := hfacts e he
  have htz : t ≠ ((e.1 : Nat) : F) := by rw [← hzi]; exact ht i hi
  simp only [Function.comp, id]
  have := ev_divide cfg hc t e.1 hz e.2 hlen htz
  unfold ev at this
  rw [this, innerProd_map_mul_left]
  ring

end prover

end GoIpa.Mp
