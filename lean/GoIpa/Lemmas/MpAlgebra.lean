/-
  Algebra of the multiproof: sums of vectors, evaluation functionals, regrouping of sums over
  evaluation points into sums over openings.
-/
import Mathlib.Tactic.Ring
import Mathlib.Tactic.Abel
import Mathlib.Tactic.Module
import Mathlib.Tactic.FieldSimp
import Mathlib.Tactic.LinearCombination
import Mathlib.Algebra.BigOperators.Group.List.Basic
import GoIpa.Lemmas.Grouping
import GoIpa.Lemmas.Vec
import GoIpa.Lemmas.IpaAlgebra
import GoIpa.Lemmas.DivideOnDomain
import GoIpa.Props.C04
namespace GoIpa.Mp
open GoIpa GoIpa.Grouping

variable {F G : Type} [Field F] [DecidableEq F] [AddCommGroup G] [Module F G]

/-- sum of a list of vectors, as the prover accumulates them -/
def sumVecs (N : Nat) (vs : List (List F)) : List F := vs.foldl addVec (List.replicate N 0)

theorem foldl_addVec_spec (N : Nat) (vs : List (List F)) (hv : ∀ v ∈ vs, v.length = N) (init : List F)
    (hi : init.length = N) :
    (vs.foldl addVec init).length = N ∧
    ∀ j, (vs.foldl addVec init).getD j 0 = init.getD j 0 + (vs.map fun v => v.getD j 0).sum := by
  induction vs generalizing init with
  | nil => simp [hi]
  | cons v vs ih =>
    have hvl : v.length = N := hv v (by simp)
    have hl : (addVec init v).length = N := by rw [addVec_length, hi, hvl]; simp
    obtain ⟨l1, l2⟩ := ih (fun u hu => hv u (by simp [hu])) (addVec init v) hl
    refine ⟨l1, ?_⟩
    intro j
    simp only [List.foldl_cons, List.map_cons, List.sum_cons]
    rw [l2 j, addVec_getD _ _ (by rw [hi, hvl])]
    ring

theorem sumVecs_spec (N : Nat) (vs : List (List F)) (hv : ∀ v ∈ vs, v.length = N) :
    (sumVecs N vs).length = N ∧ ∀ j, (sumVecs N vs).getD j 0 = (vs.map fun v => v.getD j 0).sum := by
  obtain ⟨a, b⟩ := foldl_addVec_spec N vs hv (List.replicate N 0) (by simp)
  refine ⟨a, ?_⟩
  intro j
  rw [show sumVecs N vs = vs.foldl addVec (List.replicate N 0) from rfl, b j, replicate_getD_zero, zero_add]

/-- the present groups with their evaluation points, in increasing order -/
def present (groups : Groups F) (off : Nat) : List (Nat × List F) :=
  (List.zipIdx groups off).filterMap fun e => e.1.map fun f => (e.2, f)

theorem present_mem (groups : Groups F) (off z : Nat) (f : List F) :
    (z, f) ∈ present groups off ↔ off ≤ z ∧ groups.getD (z - off) none = some f ∧ z - off < groups.length := by
  induction groups generalizing off with
  | nil => simp [present]
  | cons g gs ih =>
    unfold present at ih ⊢
    simp only [List.zipIdx_cons, List.filterMap_cons]
    cases g with
    | none =>
      simp only [Option.map_none]
      rw [ih (off + 1)]
      constructor
      · rintro ⟨h1, h2, h3⟩
        refine ⟨by omega, ?_, by simp; omega⟩
        have : z - off = (z - (off + 1)) + 1 := by omega
        rw [this, List.getD_cons_succ]; exact h2
      · rintro ⟨h1, h2, h3⟩
        by_cases hz : z = off
        · subst hz; simp at h2
        · refine ⟨by omega, ?_, ?_⟩
          · have : z - off = (z - (off + 1)) + 1 := by omega
            rw [this, List.getD_cons_succ] at h2; exact h2
          · simp at h3; omega
    | some f0 =>
      simp only [Option.map_some, List.mem_cons, Prod.mk.injEq]
      rw [ih (off + 1)]
      constructor
      · rintro (⟨rfl, rfl⟩ | ⟨h1, h2, h3⟩)
        · simp
        · refine ⟨by omega, ?_, by simp; omega⟩
          have : z - off = (z - (off + 1)) + 1 := by omega
          rw [this, List.getD_cons_succ]; exact h2
      · rintro ⟨h1, h2, h3⟩
        by_cases hz : z = off
        · subst hz; left; simp at h2; exact ⟨rfl, h2.symm⟩
        · right
          refine ⟨by omega, ?_, ?_⟩
          · have : z - off = (z - (off + 1)) + 1 := by omega
            rw [this, List.getD_cons_succ] at h2; exact h2
          · simp at h3; omega

/-- summing a function of `(z, F_z)` over the present groups = summing over all evaluation
points with the absent ones contributing zero -/
theorem sum_present (groups : Groups F) (off : Nat) (ψ : Nat → List F → F) (hψ : ∀ z, ψ z [] = 0) :
    ((present groups off).map fun e => ψ e.1 e.2).sum =
      ((List.range groups.length).map fun k => ψ (k + off) ((groups.getD k none).getD [])).sum := by
  induction groups generalizing off with
  | nil => simp [present]
  | cons g gs ih =>
    unfold present at ih ⊢
    rw [List.length_cons, List.range_succ_eq_map]
    simp only [List.zipIdx_cons, List.filterMap_cons, List.map_cons, List.sum_cons, List.map_map]
    have hrest := ih (off + 1)
    have hshift : (List.map ((fun k => ψ (k + off) (((g :: gs).getD k none).getD [])) ∘ Nat.succ) (List.range gs.length))
        = (List.range gs.length).map fun k => ψ (k + (off + 1)) ((gs.getD k none).getD []) := by
      apply List.map_congr_left
      intro k _
      simp only [Function.comp, Nat.succ_eq_add_one, List.getD_cons_succ]
      congr 1; omega
    rw [hshift, ← hrest]
    cases g with
    | none => simp [hψ]
    | some f0 => simp

/-- the prover's accumulation over the group table is a sum over the present groups -/
theorem fold_groups_eq (groups : Groups F) (off : Nat) (φ : Nat → List F → List F) (init : List F) :
    (List.zipIdx groups off).foldl (fun (acc : List F) (e : Option (List F) × Nat) =>
        (e.1.map fun f => addVec acc (φ e.2 f)).getD acc) init
      = ((present groups off).map fun e => φ e.1 e.2).foldl addVec init := by
  induction groups generalizing off init with
  | nil => simp [present]
  | cons g gs ih =>
    unfold present at ih ⊢
    simp only [List.zipIdx_cons, List.foldl_cons, List.filterMap_cons]
    cases g with
    | none => simpa using ih (off + 1) init
    | some f0 => simpa using ih (off + 1) _

/-- list sum over a range as a finite sum -/
theorem list_range_sum (N : Nat) (f : Nat → F) : ((List.range N).map f).sum = ∑ i ∈ Finset.range N, f i := by
  rw [← List.sum_toFinset _ List.nodup_range]
  congr 1
  ext j; simp

/-- **Regrouping.** A weighted sum over evaluation points of the per-point contributions is the
sum over the openings, each weighted by the weight of its own evaluation point. -/
theorem regroup (N : Nat) (fs : List (List F)) (pows : List F) (zs : List Nat) (ψ : Nat → F) (j : Nat → Nat) :
    ∀ (I : List Nat), (∀ i ∈ I, zs.getD i 0 < N) →
      ((List.range N).map fun z => ψ z * contrib fs pows zs I z (j z)).sum =
        (I.map fun i => ψ (zs.getD i 0) * (pows.getD i 0 * (fs.getD i []).getD (j (zs.getD i 0)) 0)).sum := by
  intro I
  induction I with
  | nil => intro _; simp [contrib_nil]
  | cons i I ih =>
    intro hI
    have hz : zs.getD i 0 < N := hI i (by simp)
    simp only [List.map_cons, List.sum_cons]
    rw [← ih (fun k hk => hI k (by simp [hk]))]
    simp only [contrib_cons, mul_add]
    rw [list_range_sum, list_range_sum, Finset.sum_add_distrib]
    congr 1
    rw [Finset.sum_eq_single (zs.getD i 0)]
    · rw [if_pos rfl]
    · intro b _ hb
      have : ¬ zs.getD i 0 = b := fun h => hb h.symm
      rw [if_neg this, mul_zero]
    · intro h; exact absurd (Finset.mem_range.mpr hz) h

/-- linear combination of vectors, accumulated like the prover does -/
def lincomb (N : Nat) (ss : List F) (vs : List (List F)) : List F :=
  sumVecs N (List.zipWith scaleVec ss vs)

theorem scaleVec_length (c : F) (v : List F) : (scaleVec c v).length = v.length := by simp [scaleVec]

theorem lincomb_spec (N : Nat) (ss : List F) (vs : List (List F)) (hv : ∀ v ∈ vs, v.length = N) :
    (lincomb N ss vs).length = N ∧
      ∀ j, (lincomb N ss vs).getD j 0 = (List.zipWith (fun s v => s * v.getD j 0) ss vs).sum := by
  have hl : ∀ u ∈ List.zipWith scaleVec ss vs, u.length = N := by
    intro u hu
    obtain ⟨k, hk, rfl⟩ := List.getElem_of_mem hu
    simp only [List.getElem_zipWith, scaleVec_length]
    exact hv _ (List.getElem_mem _)
  obtain ⟨a, b⟩ := sumVecs_spec N _ hl
  refine ⟨a, ?_⟩
  intro j
  rw [show lincomb N ss vs = sumVecs N (List.zipWith scaleVec ss vs) from rfl, b j]
  congr 1
  clear hl a b hv
  induction ss generalizing vs with
  | nil => simp
  | cons s ss ih =>
    cases vs with
    | nil => simp
    | cons v vs => simp only [List.zipWith_cons_cons, List.map_cons, scaleVec_getD, ih vs]

theorem msm_scaleVec (g : List G) (c : F) (v : List F) : msm g (scaleVec c v) = c • msm g v := by
  unfold scaleVec; exact msm_map_mul g v c

theorem msm_addVec (g : List G) (u v : List F) (h : u.length = v.length) : msm g (addVec u v) = msm g u + msm g v := by
  induction g generalizing u v with
  | nil => simp
  | cons p g ih =>
    cases u with
    | nil => cases v with
      | nil => simp [addVec]
      | cons _ _ => simp at h
    | cons x u => cases v with
      | nil => simp at h
      | cons y v =>
        simp only [addVec, List.zipWith_cons_cons, msm_cons]
        have := ih u v (by simpa using h)
        simp only [addVec] at this
        rw [this]; module

theorem msm_replicate_zero (g : List G) (N : Nat) : msm g (List.replicate N (0 : F)) = 0 := by
  induction g generalizing N with
  | nil => simp
  | cons p g ih => cases N with
    | zero => simp
    | succ N => simp [List.replicate_succ, ih]

/-- **MSM is linear**: the commitment to a linear combination of vectors is the same linear
combination of their commitments. -/
theorem msm_lincomb (N : Nat) (g : List G) (ss : List F) (vs : List (List F)) (hv : ∀ v ∈ vs, v.length = N) :
    msm g (lincomb N ss vs) = msm (vs.map (msm g)) ss := by
  unfold lincomb sumVecs
  have key : ∀ (ss : List F) (vs : List (List F)) (init : List F), (∀ v ∈ vs, v.length = N) → init.length = N →
      msm g ((List.zipWith scaleVec ss vs).foldl addVec init) = msm g init + msm (vs.map (msm g)) ss := by
    intro ss
    induction ss with
    | nil => intro vs init _ _; simp
    | cons s ss ih =>
      intro vs init hvs hi
      cases vs with
      | nil => simp
      | cons v vs =>
        have hvl : v.length = N := hvs v (by simp)
        simp only [List.zipWith_cons_cons, List.foldl_cons, List.map_cons, msm_cons]
        rw [ih vs _ (fun u hu => hvs u (by simp [hu])) (by rw [addVec_length, hi, scaleVec_length, hvl]; simp)]
        rw [msm_addVec _ _ _ (by rw [hi, scaleVec_length, hvl]), msm_scaleVec]
        abel
  rw [key ss vs _ hv (by simp), msm_replicate_zero, zero_add]

/-- well-formed configuration: `N = 2^rounds` basis points, the weight tables of the domain
`0..N−1`, whose points are distinct in `F`, and a correct domain test -/
structure CfgOk (cfg : IpaCfg F G) : Prop where
  N_pos : 1 ≤ cfg.N
  srs_len : cfg.srs.length = cfg.N
  pow : cfg.N = 2 ^ cfg.rounds
  weights : cfg.weights = Weights.new cfg.N
  inj : Set.InjOn (C18.dom (F := F)) (Finset.range cfg.N)
  dom_some : ∀ z i, cfg.inDomain z = some i → i < cfg.N ∧ z = (i : F)
  dom_none : ∀ z, cfg.inDomain z = none → ∀ i < cfg.N, z ≠ (i : F)

/-- evaluation of an evaluation-form vector at `t`: inner product with `computeBVector(t)` -/
def ev (cfg : IpaCfg F G) (t : F) (v : List F) : F := innerProd v (bVector cfg t)

theorem divide_length (w : Weights F) (N k : Nat) (f : List F) : (w.divideOnDomain N k f).length = N := by
  simp [Weights.divideOnDomain]

theorem bVector_length (cfg : IpaCfg F G) (hc : CfgOk cfg) (t : F) : (bVector cfg t).length = cfg.N := by
  unfold bVector
  cases cfg.inDomain t with
  | none => simp [Weights.baryCoeffs, batchInvert_length]
  | some i => simp

/-- **Evaluating the in-domain quotient.** For every point `t` different from the domain point
`z` — in the domain or outside — the evaluation of `DivideOnDomain(z, f)` at `t` is
`(f(t) − f(z)) / (t − z)`. -/
theorem ev_divide (cfg : IpaCfg F G) (hc : CfgOk cfg) (t : F) (z : Nat) (hz : z < cfg.N) (f : List F)
    (hf : f.length = cfg.N) (htz : t ≠ (z : F)) :
    ev cfg t (cfg.weights.divideOnDomain cfg.N z f) = (ev cfg t f - f.getD z 0) * (t - (z : F))⁻¹ := by
  have hne : t - (z : F) ≠ 0 := sub_ne_zero_of_ne htz
  rw [hc.weights]
  unfold ev bVector
  cases hd : cfg.inDomain t with
  | some i0 =>
    obtain ⟨hi0, ht⟩ := hc.dom_some t i0 hd
    simp only []
    rw [C04.innerProd_unit _ cfg.N i0 (divide_length _ _ _ _) hi0, C04.innerProd_unit _ cfg.N i0 hf hi0]
    have hiz : i0 ≠ z := by
      intro e; apply htz; rw [ht, e]
    rw [C18.divide_offdiag cfg.N z i0 hz hi0 hiz, ht]
  | none =>
    have hout := hc.dom_none t hd
    have hout' : ∀ i ∈ Finset.range cfg.N, t ≠ C18.dom i := fun i hi => hout i (Finset.mem_range.mp hi)
    simp only []
    rw [hc.weights, C18.bary_eval cfg.N _ (divide_length _ _ _ _) t hout', C18.bary_eval cfg.N f hf t hout']
    -- the interpolant of the quotient's evaluation form is the quotient polynomial
    have hq : Divide.quot cfg.N z f =
        Lagrange.interpolate (Finset.range cfg.N) (C18.dom (F := F))
          (fun i => ((Weights.new cfg.N : Weights F).divideOnDomain cfg.N z f).getD i 0) := by
      apply Lagrange.eq_interpolate_of_eval_eq _ hc.inj
      · rw [Finset.card_range]
        exact lt_of_lt_of_le (Divide.quot_degree cfg.N z hc.inj hc.N_pos f) (by exact_mod_cast Nat.sub_le _ 1)
      · intro i hi
        exact (Divide.divide_spec cfg.N z hc.inj hz f i (Finset.mem_range.mp hi)).symm
    rw [← hq]
    have hm := congrArg (Polynomial.eval t) (Divide.quot_mul cfg.N z f)
    simp only [Polynomial.eval_mul, Polynomial.eval_sub, Polynomial.eval_X, Polynomial.eval_C] at hm
    rw [Divide.interp_eval cfg.N hc.inj f z hz] at hm
    unfold Divide.interp at hm
    simp only [C18.dom] at hm ⊢
    field_simp
    linear_combination hm

/-! ### linearity of the evaluation functional -/

theorem innerProd_addVec (u v b : List F) (h : u.length = v.length) :
    innerProd (addVec u v) b = innerProd u b + innerProd v b := by
  induction b generalizing u v with
  | nil => simp
  | cons y b ih =>
    cases u with
    | nil => cases v with
      | nil => simp [addVec]
      | cons _ _ => simp at h
    | cons x u => cases v with
      | nil => simp at h
      | cons x' v =>
        simp only [addVec, List.zipWith_cons_cons, innerProd_cons]
        have := ih u v (by simpa using h)
        simp only [addVec] at this
        rw [this]; ring

theorem innerProd_subVec (u v b : List F) (h : u.length = v.length) :
    innerProd (List.zipWith (· - ·) u v) b = innerProd u b - innerProd v b := by
  induction b generalizing u v with
  | nil => simp
  | cons y b ih =>
    cases u with
    | nil => cases v with
      | nil => simp
      | cons _ _ => simp at h
    | cons x u => cases v with
      | nil => simp at h
      | cons x' v =>
        simp only [List.zipWith_cons_cons, innerProd_cons]
        rw [ih u v (by simpa using h)]; ring

theorem innerProd_map_mul_left (u b : List F) (c : F) : innerProd (u.map (· * c)) b = c * innerProd u b := by
  induction u generalizing b with
  | nil => simp
  | cons x u ih => cases b with
    | nil => simp
    | cons y b => simp only [List.map_cons, innerProd_cons, ih b]; ring

theorem innerProd_replicate_zero_left (N : Nat) (b : List F) : innerProd (List.replicate N (0 : F)) b = 0 := by
  rw [innerProd_comm]; exact C04.innerProd_replicate_zero b N

theorem ev_sumVecs (cfg : IpaCfg F G) (t : F) (N : Nat) (vs : List (List F)) (hv : ∀ v ∈ vs, v.length = N) :
    ev cfg t (sumVecs N vs) = (vs.map (ev cfg t)).sum := by
  unfold ev sumVecs
  have key : ∀ (vs : List (List F)) (init : List F), (∀ v ∈ vs, v.length = N) → init.length = N →
      innerProd (vs.foldl addVec init) (bVector cfg t) =
        innerProd init (bVector cfg t) + (vs.map fun v => innerProd v (bVector cfg t)).sum := by
    intro vs
    induction vs with
    | nil => intro init _ _; simp
    | cons v vs ih =>
      intro init hvs hi
      have hvl : v.length = N := hvs v (by simp)
      simp only [List.foldl_cons, List.map_cons, List.sum_cons]
      rw [ih _ (fun u hu => hvs u (by simp [hu])) (by rw [addVec_length, hi, hvl]; simp),
        innerProd_addVec _ _ _ (by rw [hi, hvl])]
      ring
  rw [key vs _ hv (by simp), innerProd_replicate_zero_left, zero_add]

/-- sum of a `zipWith` as a sum over indices -/
theorem zipWith_sum_range {α β : Type} (f : α → β → F) (as : List α) (bs : List β) (da : α) (db : β)
    (h : as.length = bs.length) :
    (List.zipWith f as bs).sum = ((List.range as.length).map fun i => f (as.getD i da) (bs.getD i db)).sum := by
  induction as generalizing bs with
  | nil => simp
  | cons a as ih =>
    cases bs with
    | nil => simp at h
    | cons b bs =>
      rw [List.length_cons, List.range_succ_eq_map]
      simp only [List.zipWith_cons_cons, List.sum_cons, List.map_cons, List.map_map, List.getD_cons_zero]
      rw [ih bs (by simpa using h)]
      congr 1

end GoIpa.Mp
