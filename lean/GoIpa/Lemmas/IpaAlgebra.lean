/-
  The algebra of the inner-product argument: one folding round, the recursion over all
  rounds, and the closed form of the folded basis / vector via the folding scalars.
-/
import GoIpa.Lemmas.Vec
import GoIpa.Lemmas.BatchInvert
namespace GoIpa

section
variable {F G : Type} [Field F] [AddCommGroup G] [Module F G]

/-- the statement a round reduces: `⟨a,g⟩ + ⟨a,b⟩ • q` -/
def ipaStmt (q : G) (a b : List F) (g : List G) : G := msm g a + innerProd a b • q

/-- **One folding round.**  With `x ≠ 0`, folding `a` by `x` and `b`, `g` by `x⁻¹` changes the
statement by exactly `x • L + x⁻¹ • R`, where `L`, `R` are the prover's cross terms. -/
theorem round_identity (q : G) (a b : List F) (g : List G) (m : Nat) (x : F) (hx : x ≠ 0)
    (ha : a.length = 2 * m) (hb : b.length = 2 * m) (hg : g.length = 2 * m) :
    ipaStmt q (foldScalars (a.take m) (a.drop m) x) (foldScalars (b.take m) (b.drop m) x⁻¹)
        (foldPoints (g.take m) (g.drop m) x⁻¹)
      = ipaStmt q a b g
        + x • (msm (g.take m) (a.drop m) + innerProd (a.drop m) (b.take m) • q)
        + x⁻¹ • (msm (g.drop m) (a.take m) + innerProd (a.take m) (b.drop m) • q) := by
  have la : (a.take m).length = (a.drop m).length := by simp [ha]; omega
  have lb : (b.take m).length = (b.drop m).length := by simp [hb]; omega
  have lg : (g.take m).length = (g.drop m).length := by simp [hg]; omega
  unfold ipaStmt
  rw [msm_foldPoints _ _ _ _ lg, msm_foldScalars _ _ _ _ la, msm_foldScalars _ _ _ _ la,
    innerProd_foldScalars_left _ _ _ _ la, innerProd_foldScalars_right _ _ _ _ lb,
    innerProd_foldScalars_right _ _ _ _ lb, msm_split g a m, innerProd_split a b m]
  have h1 : x⁻¹ • x • msm (g.drop m) (a.drop m) = msm (g.drop m) (a.drop m) := by
    rw [smul_smul, inv_mul_cancel₀ hx, one_smul]
  have h2 : x * (x⁻¹ * innerProd (a.drop m) (b.drop m)) = innerProd (a.drop m) (b.drop m) := by
    rw [← mul_assoc, mul_inv_cancel₀ hx, one_mul]
  rw [smul_add, h1, mul_add, h2]
  module

/-- the folded vector after all rounds: challenges are consumed front to back -/
def foldAllScalars : List F → List F → List F
  | [], v => v
  | x :: xs, v => foldAllScalars xs (foldScalars (v.take (v.length / 2)) (v.drop (v.length / 2)) x)

def foldAllPoints : List F → List G → List G
  | [], v => v
  | x :: xs, v => foldAllPoints xs (foldPoints (v.take (v.length / 2)) (v.drop (v.length / 2)) x)

/-- the folding scalars in recursive form: `fsRec [] = [1]`,
`fsRec (x :: xs) = fsRec xs ++ x • fsRec xs` -/
def fsRec : List F → List F
  | [] => [1]
  | x :: xs => fsRec xs ++ (fsRec xs).map (x * ·)

theorem fsRec_length (xs : List F) : (fsRec xs).length = 2 ^ xs.length := by
  induction xs with
  | nil => simp [fsRec]
  | cons x xs ih => simp [fsRec, ih, pow_succ]; ring

theorem msm_append (g g' : List G) (a a' : List F) (h : g.length = a.length) :
    msm (g ++ g') (a ++ a') = msm g a + msm g' a' := by
  induction g generalizing a with
  | nil => cases a with
    | nil => simp
    | cons _ _ => simp at h
  | cons p g ih => cases a with
    | nil => simp at h
    | cons s a =>
      simp only [List.cons_append, msm_cons]
      rw [ih a (by simpa using h)]; abel

theorem msm_map_mul (g : List G) (a : List F) (x : F) : msm g (a.map (x * ·)) = x • msm g a := by
  induction g generalizing a with
  | nil => simp
  | cons p g ih => cases a with
    | nil => simp
    | cons s a => simp only [List.map_cons, msm_cons, ih a]; module

theorem innerProd_append (a a' b b' : List F) (h : a.length = b.length) :
    innerProd (a ++ a') (b ++ b') = innerProd a b + innerProd a' b' := by
  induction a generalizing b with
  | nil => cases b with
    | nil => simp
    | cons _ _ => simp at h
  | cons x a ih => cases b with
    | nil => simp at h
    | cons y b =>
      simp only [List.cons_append, innerProd_cons]
      rw [ih b (by simpa using h)]; ring

theorem innerProd_map_mul (a b : List F) (x : F) : innerProd a (b.map (x * ·)) = x * innerProd a b := by
  induction a generalizing b with
  | nil => simp
  | cons y a ih => cases b with
    | nil => simp
    | cons z b => simp only [List.map_cons, innerProd_cons, ih b]; ring

/-- **Closed form of the folded basis**: after folding `g` (length `2^n`) with the challenges
`xs`, the single remaining point is `Σ fsRec(xs)ᵢ • gᵢ`. -/
theorem foldAllPoints_spec (xs : List F) (g : List G) (hg : g.length = 2 ^ xs.length) :
    ∃ p, foldAllPoints xs g = [p] ∧ p = msm g (fsRec xs) := by
  induction xs generalizing g with
  | nil =>
    match g, hg with
    | [p], _ => exact ⟨p, rfl, by simp [fsRec]⟩
  | cons x xs ih =>
    have hlen : g.length = 2 * 2 ^ xs.length := by rw [hg]; simp [pow_succ]; ring
    have hhalf : g.length / 2 = 2 ^ xs.length := by omega
    unfold foldAllPoints
    rw [hhalf]
    have hf : (foldPoints (g.take (2 ^ xs.length)) (g.drop (2 ^ xs.length)) x).length = 2 ^ xs.length := by
      rw [foldPoints_length]; simp; omega
    obtain ⟨p, hp, hpe⟩ := ih _ hf
    refine ⟨p, hp, ?_⟩
    rw [hpe, msm_foldPoints _ _ _ _ (by simp; omega)]
    conv_rhs => rw [← List.take_append_drop (2 ^ xs.length) g]
    rw [show fsRec (x :: xs) = fsRec xs ++ (fsRec xs).map (x * ·) from rfl]
    rw [msm_append _ _ _ _ (by simp [fsRec_length]; omega), msm_map_mul]

theorem foldAllScalars_spec (xs : List F) (b : List F) (hb : b.length = 2 ^ xs.length) :
    ∃ s, foldAllScalars xs b = [s] ∧ s = innerProd b (fsRec xs) := by
  induction xs generalizing b with
  | nil =>
    match b, hb with
    | [s], _ => exact ⟨s, rfl, by simp [fsRec]⟩
  | cons x xs ih =>
    have hlen : b.length = 2 * 2 ^ xs.length := by rw [hb]; simp [pow_succ]; ring
    have hhalf : b.length / 2 = 2 ^ xs.length := by omega
    unfold foldAllScalars
    rw [hhalf]
    have hf : (foldScalars (b.take (2 ^ xs.length)) (b.drop (2 ^ xs.length)) x).length = 2 ^ xs.length := by
      rw [foldScalars_length]; simp; omega
    obtain ⟨s, hs, hse⟩ := ih _ hf
    refine ⟨s, hs, ?_⟩
    rw [hse, innerProd_foldScalars_left _ _ _ _ (by simp; omega)]
    conv_rhs => rw [← List.take_append_drop (2 ^ xs.length) b]
    rw [show fsRec (x :: xs) = fsRec xs ++ (fsRec xs).map (x * ·) from rfl]
    rw [innerProd_append _ _ _ _ (by simp [fsRec_length]; omega), innerProd_map_mul]

end
end GoIpa
