/-
  The bucket method at group level: for any abelian group, any window width, any bucket count and
  any per-scalar digit source, `msmProcessChunk` returns `Σ digitᵢ • Pᵢ` and `msmCk` returns
  `Σᵢ (Σ_k 2^(ck)·digit_{i,k}) • Pᵢ`, provided every stored digit addresses an existing bucket.
-/
import GoIpa.Props.C09
namespace GoIpa.Pip
open GoIpa GoIpa.C09

variable {G : Type} [AddCommGroup G]

theorem weighted_length_zero (n : Nat) : weighted (List.replicate n (0 : G)) = 0 := by
  induction n with
  | zero => rfl
  | succ n ih => simp [List.replicate_succ, weighted, ih]

/-- adding `P` to bucket `j` adds `(j+1) • P` to the weighted sum -/
theorem weighted_set (b : List G) (j : Nat) (hj : j < b.length) (P : G) :
    weighted (b.set j (b.getD j 0 + P)) = weighted b + (j + 1) • P := by
  induction b generalizing j with
  | nil => simp at hj
  | cons x b ih =>
    cases j with
    | zero =>
      simp only [List.set_cons_zero, weighted, List.getD_cons_zero, Nat.zero_add, one_smul]
      abel
    | succ j =>
      have hj' : j < b.length := by simpa using hj
      simp only [List.set_cons_succ, weighted, List.getD_cons_succ, ih j hj']
      have hs : (b.set j (b.getD j 0 + P)).sum = b.sum + P := by
        clear ih
        induction b generalizing j with
        | nil => simp at hj'
        | cons y b ihb =>
          cases j with
          | zero => simp only [List.set_cons_zero, List.sum_cons, List.getD_cons_zero]; abel
          | succ j =>
            simp only [List.set_cons_succ, List.sum_cons, List.getD_cons_succ]
            rw [ihb j (by simpa using hj') (by simpa using hj')]; abel
      rw [hs]
      simp only [add_smul, one_smul]
      abel

/-- the bucket a stored digit addresses exists -/
def InRange (c nb bits : Nat) : Prop :=
  bits ≠ 0 → (if bits &&& (1 <<< (c - 1)) = 0 then bits - 1 < nb else bits &&& ((1 <<< (c - 1)) - 1) < nb)

/-- the bucket-filling loop of one chunk -/
def fill (c k : Nat) (b : List G) (e : G × List Nat) : List G :=
  let bits := selectBits c e.2 k
  if bits = 0 then b
  else if bits &&& (1 <<< (c - 1)) = 0 then b.set (bits - 1) (e.1 + b.getD (bits - 1) 0)
  else
    let i := bits &&& ((1 <<< (c - 1)) - 1)
    b.set i (b.getD i 0 + -e.1)

theorem fill_spec (c k : Nat) (b : List G) (e : G × List Nat) (hr : InRange c b.length (selectBits c e.2 k)) :
    (fill c k b e).length = b.length ∧
    weighted (fill c k b e) = weighted b + decodeDigit c (selectBits c e.2 k) • e.1 := by
  unfold fill decodeDigit
  simp only
  by_cases h0 : selectBits c e.2 k = 0
  · simp [h0]
  · have hr' := hr h0
    by_cases hpos : selectBits c e.2 k &&& (1 <<< (c - 1)) = 0
    · rw [if_neg h0, if_pos hpos, if_neg h0, if_pos hpos]
      rw [if_pos hpos] at hr'
      refine ⟨by simp, ?_⟩
      rw [add_comm e.1, weighted_set b _ hr']
      have : selectBits c e.2 k - 1 + 1 = selectBits c e.2 k := by omega
      rw [this, natCast_zsmul]
    · rw [if_neg h0, if_neg hpos, if_neg h0, if_neg hpos]
      rw [if_neg hpos] at hr'
      refine ⟨by simp, ?_⟩
      rw [weighted_set b _ hr']
      congr 1
      rw [smul_neg]
      generalize selectBits c e.2 k &&& ((1 <<< (c - 1)) - 1) = n
      rw [show (-(n : Int) - 1) = -((n + 1 : Nat) : Int) by push_cast; ring, neg_smul, natCast_zsmul]

theorem fill_fold (c k : Nat) (l : List (G × List Nat)) (b : List G)
    (hr : ∀ e ∈ l, InRange c b.length (selectBits c e.2 k)) :
    (l.foldl (fill c k) b).length = b.length ∧
    weighted (l.foldl (fill c k) b) = weighted b + (l.map fun e => decodeDigit c (selectBits c e.2 k) • e.1).sum := by
  induction l generalizing b with
  | nil => simp
  | cons e l ih =>
    obtain ⟨hl, hw⟩ := fill_spec c k b e (hr e List.mem_cons_self)
    obtain ⟨hl2, hw2⟩ := ih (fill c k b e) (fun e' he' => by rw [hl]; exact hr e' (List.mem_cons_of_mem _ he'))
    simp only [List.foldl_cons, List.map_cons, List.sum_cons]
    refine ⟨by rw [hl2, hl], ?_⟩
    rw [hw2, hw]; abel

/-- **One chunk.** `msmProcessChunk` returns `Σ digitᵢ • Pᵢ` over the points it is given. -/
theorem processChunk_spec (c nb k : Nat) (points : List G) (parts : List (List Nat))
    (hr : ∀ e ∈ List.zip points parts, InRange c nb (selectBits c e.2 k)) :
    processChunk c nb k points parts
      = ((List.zip points parts).map fun e => decodeDigit c (selectBits c e.2 k) • e.1).sum := by
  unfold processChunk
  simp only
  have hfold := fill_fold c k (List.zip points parts) (List.replicate nb (0 : G)) (by simpa using hr)
  have hb := bucket_reduce ((List.zip points parts).foldl (fill c k) (List.replicate nb (0 : G)))
  unfold fill at hb hfold
  simp only at hb hfold
  rw [hb, hfold.2, weighted_length_zero, zero_add]

/-! ### all chunks -/

/-- the digit string a stored scalar decodes to -/
def digitSum (c n : Nat) (q : List Nat) : Int :=
  ((List.range n).map fun k => ((2 ^ (c * k) : Nat) : Int) * decodeDigit c (selectBits c q k)).sum

/-- bucket count of chunk `k` (the top chunk of a non-dividing width is narrower) -/
def nbOf (c k : Nat) : Nat :=
  if 256 % c ≠ 0 ∧ k = nbChunks c - 1 then 1 <<< ((256 - c * (256 / c)) - 1) else 1 <<< (c - 1)

theorem zipIdx_map_range {α β : Type} (n : Nat) (f : Nat → α) (g : α × Nat → β) :
    (List.zipIdx ((List.range n).map f)).map g = (List.range n).map fun k => g (f k, k) := by
  apply List.ext_getElem (by simp)
  intro i h1 h2
  simp

theorem zip_take_drop {α β : Type} (l : List α) (m : List β) (h : Nat) :
    List.zip (l.take h) (m.take h) ++ List.zip (l.drop h) (m.drop h) = List.zip l m := by
  rw [List.zip_eq_zipWith, List.zip_eq_zipWith, List.zip_eq_zipWith, ← List.take_zipWith, ← List.drop_zipWith,
    List.take_append_drop]

theorem sum_smul_list (l : List Int) (P : G) : (l.map fun x => x • P).sum = l.sum • P := by
  induction l with
  | nil => simp
  | cons x l ih => simp only [List.map_cons, List.sum_cons, ih, add_smul]

theorem sum_add_list {α : Type} (l : List α) (f g : α → G) :
    (l.map fun x => f x + g x).sum = (l.map f).sum + (l.map g).sum := by
  induction l with
  | nil => simp
  | cons x l ih => simp only [List.map_cons, List.sum_cons, ih]; abel

/-- exchange of the two summations -/
theorem sum_exchange (c n : Nat) (l : List (G × List Nat)) :
    ((List.range n).map fun k => (2 ^ (c * k)) • (l.map fun e => decodeDigit c (selectBits c e.2 k) • e.1).sum).sum
      = (l.map fun e => digitSum c n e.2 • e.1).sum := by
  induction l with
  | nil => simp
  | cons e l ih =>
    simp only [List.map_cons, List.sum_cons, smul_add]
    rw [sum_add_list, ih]
    congr 1
    unfold digitSum
    rw [← sum_smul_list, List.map_map]
    apply congrArg
    apply List.map_congr_left
    intro k _
    simp only [Function.comp]
    rw [mul_smul, natCast_zsmul]

/-- **`msmCk`.** With `x ↦ x + x` for the doubling: the chunk totals, Horner-combined, are
`Σᵢ (Σ_k 2^(ck)·digit_{i,k}) • Pᵢ`, with or without the split of the first chunk. -/
theorem msmInner_spec (c : Nat) (points : List G) (parts : List (List Nat)) (split : Bool)
    (hn : 1 ≤ nbChunks c)
    (hr : ∀ k, k < nbChunks c → ∀ e ∈ List.zip points parts, InRange c (nbOf c k) (selectBits c e.2 k)) :
    msmInner (fun x => x + x) c points parts split
      = ((List.zip points parts).map fun e => digitSum c (nbChunks c) e.2 • e.1).sum := by
  unfold msmInner
  simp only
  set n := nbChunks c with hnd
  have hchunk : ∀ k, k < n → ∀ (ps : List G) (qs : List (List Nat)),
      (∀ e ∈ List.zip ps qs, e ∈ List.zip points parts) →
      processChunk c (if 256 % c ≠ 0 ∧ k = n - 1 then 1 <<< (256 - c * (256 / c) - 1) else 1 <<< (c - 1)) k ps qs
        = ((List.zip ps qs).map fun e => decodeDigit c (selectBits c e.2 k) • e.1).sum := by
    intro k hk ps qs hsub
    apply processChunk_spec
    intro e he
    have := hr k hk e (hsub e he)
    unfold nbOf at this
    exact this
  have hfirst : (if split = true then
        processChunk c (if 256 % c ≠ 0 ∧ 0 = n - 1 then 1 <<< (256 - c * (256 / c) - 1) else 1 <<< (c - 1)) 0
            (List.take (points.length / 2) points) (List.take (points.length / 2) parts) +
          processChunk c (if 256 % c ≠ 0 ∧ 0 = n - 1 then 1 <<< (256 - c * (256 / c) - 1) else 1 <<< (c - 1)) 0
            (List.drop (points.length / 2) points) (List.drop (points.length / 2) parts)
      else processChunk c (if 256 % c ≠ 0 ∧ 0 = n - 1 then 1 <<< (256 - c * (256 / c) - 1) else 1 <<< (c - 1)) 0 points parts)
      = ((List.zip points parts).map fun e => decodeDigit c (selectBits c e.2 0) • e.1).sum := by
    by_cases hs : split = true
    · rw [if_pos hs]
      have hz := zip_take_drop points parts (points.length / 2)
      rw [hchunk 0 (by omega) _ _ (by
            intro e he; rw [← hz]; exact List.mem_append_left _ he),
          hchunk 0 (by omega) _ _ (by
            intro e he; rw [← hz]; exact List.mem_append_right _ he),
          ← List.sum_append, ← List.map_append, hz]
    · rw [if_neg hs]
      exact hchunk 0 (by omega) points parts (fun e he => he)
  rw [hfirst]
  have hlist : (((List.zip points parts).map fun e => decodeDigit c (selectBits c e.2 0) • e.1).sum ::
      (List.range (n - 1)).map fun k =>
        processChunk c (if 256 % c ≠ 0 ∧ k + 1 = n - 1 then 1 <<< (256 - c * (256 / c) - 1) else 1 <<< (c - 1)) (k + 1) points parts)
      = (List.range n).map fun k => ((List.zip points parts).map fun e => decodeDigit c (selectBits c e.2 k) • e.1).sum := by
    obtain ⟨m, hm⟩ : ∃ m, n = m + 1 := ⟨n - 1, by omega⟩
    rw [hm, List.range_succ_eq_map, List.map_cons, List.map_map, Nat.add_sub_cancel]
    congr 1
    apply List.map_congr_left
    intro k hk
    have hk' : k + 1 < n := by rw [hm]; have := List.mem_range.mp hk; omega
    have := hchunk (k + 1) hk' points parts (fun e he => he)
    rw [hm, Nat.add_sub_cancel] at this
    exact this
  rw [hlist, reduceChunks_spec, zipIdx_map_range]
  exact sum_exchange c n (List.zip points parts)

end GoIpa.Pip
