/-
  `Element.Exp` and `Element.Sqrt` of the scalar field are correct: `Exp` is exponentiation,
  and Tonelli–Shanks (2-adicity 5) returns `nil` exactly for non-residues and otherwise a root.
  The loop is analysed through the 2-Sylow subgroup: `x^s` is one of the 32 powers of the
  hard-coded `g`, and the loop's behaviour on those 32 elements is checked by the kernel.
-/
import Mathlib.Data.ZMod.Basic
import Mathlib.RingTheory.RootsOfUnity.PrimitiveRoots
import Mathlib.NumberTheory.LegendreSymbol.Basic
import Mathlib.Tactic.Ring
import Mathlib.Tactic.LinearCombination
import GoIpa.Model.FrSqrt
import GoIpa.Lemmas.ZpField
import GoIpa.Lemmas.Primes
namespace GoIpa.FrSqrt
open GoIpa GoIpa.Zp

instance : Fact (Nat.Prime R) := ⟨Primes.R_prime⟩
instance : Fact (2 < R) := ⟨by decide⟩

/-! ### `Exp` -/

def foldBits (bits : List Bool) (a : ℕ) : ℕ := bits.foldl (fun a b => 2 * a + (if b then 1 else 0)) a

theorem expBits_spec (x : Fr) (bits : List Bool) (z : Fr) (a : ℕ) (h : Zp.toZ z = Zp.toZ x ^ a) :
    Zp.toZ (expBits x bits z) = Zp.toZ x ^ foldBits bits a := by
  induction bits generalizing z a with
  | nil => simpa [expBits, foldBits] using h
  | cons b bs ih =>
    unfold expBits foldBits
    simp only [List.foldl_cons]
    apply ih
    cases b
    · simp only [Bool.false_eq_true, ↓reduceIte, toZ_mul, h, Nat.add_zero]; ring
    · simp only [↓reduceIte, toZ_mul, h]; ring

theorem lowBits_spec : ∀ (fuel e : ℕ), 1 ≤ e → e < 2 ^ fuel → foldBits (lowBits fuel e) 1 = e := by
  intro fuel
  induction fuel with
  | zero => intro e h1 h2; simp at h2; omega
  | succ fuel ih =>
    intro e h1 h2
    unfold lowBits
    by_cases hle : e ≤ 1
    · rw [if_pos hle]; simp [foldBits]; omega
    · rw [if_neg hle]
      have := ih (e / 2) (by omega) (by rw [Nat.pow_succ] at h2; omega)
      unfold foldBits at this ⊢
      rw [List.foldl_append, this]
      simp only [List.foldl_cons, List.foldl_nil]
      by_cases hodd : e % 2 = 1
      · simp only [hodd, decide_true, ↓reduceIte]; omega
      · simp only [hodd, decide_false, Bool.false_eq_true, ↓reduceIte]; omega

/-- **`Exp` is exponentiation** (most-significant-bit-first square-and-multiply) -/
theorem exp_spec (x : Fr) (e : ℕ) : Zp.toZ (exp x e) = Zp.toZ x ^ e := by
  unfold exp
  by_cases h0 : e = 0
  · rw [if_pos h0, h0]; simp
  · rw [if_neg h0, expBits_spec x _ x 1 (by simp), lowBits_spec _ e (by omega) Nat.lt_log2_self]

/-! ### the 2-Sylow subgroup -/

theorem sqN_spec (n : ℕ) (t : Fr) : Zp.toZ (sqN n t) = Zp.toZ t ^ (2 ^ n) := by
  induction n generalizing t with
  | zero => simp [sqN]
  | succ n ih => rw [sqN, ih, toZ_mul, pow_succ, pow_mul', pow_two]

theorem g_order : (gConst ^ 16).val = R - 1 ∧ (gConst ^ 32).val = 1 := by decide +kernel

theorem toZ_eq_one_iff (a : Fr) : Zp.toZ a = 1 ↔ a.val = 1 := by
  constructor
  · intro h; exact val_eq_of_toZ_eq_natCast a 1 (by decide) (by rw [h]; simp)
  · intro h; unfold Zp.toZ; rw [h]; simp

theorem g_primitive : IsPrimitiveRoot (Zp.toZ gConst) 32 := by
  have h16 : ¬ Zp.toZ gConst ^ 2 ^ 4 = 1 := by
    intro h
    have := toZ_pow gConst 16
    rw [show (2:ℕ) ^ 4 = 16 by norm_num] at h
    rw [h] at this
    have hv := (toZ_eq_one_iff _).mp this
    have := g_order.1
    rw [this] at hv
    have hne : R - 1 ≠ 1 := by unfold R; omega
    exact absurd hv hne
  have h32 : Zp.toZ gConst ^ 2 ^ (4 + 1) = 1 := by
    rw [show (2:ℕ) ^ (4 + 1) = 32 by norm_num, ← toZ_pow]
    exact (toZ_eq_one_iff _).mpr g_order.2
  have := orderOf_eq_prime_pow h16 h32
  rw [show (2:ℕ) ^ (4 + 1) = 32 by norm_num] at this
  rw [← this]
  exact IsPrimitiveRoot.orderOf _

/-- every 32nd root of unity of the model's field is a power of `g` -/
theorem eq_pow_g (b : Fr) (hb : Zp.toZ b ^ 32 = 1) : ∃ k, k < 32 ∧ b = Zp.pow gConst k := by
  obtain ⟨k, hk, hkb⟩ := g_primitive.eq_pow_of_pow_eq_one hb
  refine ⟨k, hk, ?_⟩
  apply toZ_injective
  rw [← hkb]
  exact (toZ_pow gConst k).symm

/-! ### the loop -/

theorem loop_scale (fuel : ℕ) (g y b : Fr) (r : ℕ) :
    loop fuel g y b r = (loop fuel g 1 b r).map (y * ·) := by
  induction fuel generalizing g y b r with
  | zero => rfl
  | succ fuel ih =>
    unfold loop
    simp only
    by_cases hm : countSq r b = 0
    · rw [if_pos hm, if_pos hm]
      simp only [Option.map_some]
      congr 1
      apply toZ_injective; simp
    · rw [if_neg hm, if_neg hm, ih, ih (y := 1 * _), Option.map_map]
      congr 1
      funext z
      simp only [Function.comp]
      apply toZ_injective; simp only [toZ_mul, toZ_one]; ring

/-- what the loop does on each of the 32 elements of the 2-Sylow subgroup -/
def sylowCheck (k : ℕ) : Bool :=
  let b := Zp.pow gConst k
  if (sqN 4 b).val = 1 then
    match loop 6 gConst 1 b 5 with
    | some y => (y * y * b).val == 1
    | none => false
  else (sqN 4 b).val == R - 1

theorem sylow_table : ∀ k ∈ List.range 32, sylowCheck k = true := by decide +kernel

/-! ### `Sqrt` -/

theorem sOdd_facts : 2 * ((sOdd - 1) / 2) + 1 = sOdd ∧ 32 * sOdd = R - 1 ∧ 16 * sOdd = R / 2 := by decide

theorem sqrt_zero : sqrt (0 : Fr) = some 0 := by decide +kernel

/-- **`Sqrt` (Tonelli–Shanks, 2-adicity 5).** For every scalar `x`: if `Sqrt` returns `y` then
`y² = x`; it returns `nil` exactly when `x` is not a square; `Sqrt(0) = 0`. -/
theorem sqrt_spec (x : Fr) :
    (∀ y, sqrt x = some y → y * y = x) ∧ (sqrt x = none ↔ ¬ IsSquare (Zp.toZ x)) := by
  by_cases hx0 : x = 0
  · subst hx0
    rw [sqrt_zero]
    refine ⟨?_, ?_⟩
    · intro y hy
      have : y = 0 := by injection hy with h; exact h.symm
      subst this; apply toZ_injective; simp
    · constructor
      · intro h; cases h
      · intro h; exfalso; apply h; rw [toZ_zero]; exact ⟨0, by simp⟩
  have hxz : Zp.toZ x ≠ 0 := by
    intro h; apply hx0; apply toZ_injective; rw [h, toZ_zero]
  obtain ⟨hs1, hs32, hs16⟩ := sOdd_facts
  -- the three derived values
  set w := exp x ((sOdd - 1) / 2) with hw
  have hwz : Zp.toZ w = Zp.toZ x ^ ((sOdd - 1) / 2) := exp_spec x _
  have hbz : Zp.toZ (w * (x * w)) = Zp.toZ x ^ sOdd := by
    rw [toZ_mul, toZ_mul, hwz]
    conv_rhs => rw [← hs1]
    rw [pow_succ, pow_mul]; ring
  have hyz : Zp.toZ (x * w) * Zp.toZ (x * w) = Zp.toZ x * Zp.toZ (w * (x * w)) := by
    rw [toZ_mul, toZ_mul, toZ_mul]; ring
  have hb32 : Zp.toZ (w * (x * w)) ^ 32 = 1 := by
    rw [hbz, ← pow_mul, Nat.mul_comm, hs32]
    exact ZMod.pow_card_sub_one_eq_one hxz
  obtain ⟨k, hk, hbk⟩ := eq_pow_g (w * (x * w)) hb32
  have htab := sylow_table k (List.mem_range.mpr hk)
  -- the Legendre test value is `x^((r-1)/2)`
  have ht : Zp.toZ (sqN 4 (w * (x * w))) = Zp.toZ x ^ (R / 2) := by
    rw [sqN_spec, hbz, ← pow_mul, show (2:ℕ) ^ 4 = 16 by norm_num, Nat.mul_comm, hs16]
  have heuler := ZMod.euler_criterion R hxz
  unfold sqrt
  simp only
  rw [← hw]
  unfold sylowCheck at htab
  simp only at htab
  rw [← hbk] at htab
  by_cases ht1 : (sqN 4 (w * (x * w))).val = 1
  · -- residue
    rw [if_pos ht1] at htab
    have hsq : IsSquare (Zp.toZ x) := by
      rw [heuler, ← ht]; exact (toZ_eq_one_iff _).mpr ht1
    rw [if_neg (by omega), if_neg (by omega), loop_scale]
    cases hl : loop 6 gConst 1 (w * (x * w)) 5 with
    | none => rw [hl] at htab; simp at htab
    | some yk =>
      rw [hl] at htab
      simp only [beq_iff_eq] at htab
      have hyk : Zp.toZ yk * Zp.toZ yk * Zp.toZ (w * (x * w)) = 1 := by
        have := (toZ_eq_one_iff (yk * yk * (w * (x * w)))).mpr htab
        simpa only [toZ_mul] using this
      refine ⟨?_, ?_⟩
      · intro y hy
        simp only [Option.map_some, Option.some.injEq] at hy
        subst hy
        apply toZ_injective
        simp only [toZ_mul] at hyk ⊢
        linear_combination (Zp.toZ x) * hyk
      · constructor
        · intro h; simp at h
        · intro h; exact absurd hsq h
  · -- non-residue: the test value is −1
    rw [if_neg ht1] at htab
    simp only [beq_iff_eq] at htab
    have hnsq : ¬ IsSquare (Zp.toZ x) := by
      rw [heuler, ← ht]
      intro h; exact ht1 ((toZ_eq_one_iff _).mp h)
    have hne0 : (sqN 4 (w * (x * w))).val ≠ 0 := by
      rw [htab]; unfold R; omega
    rw [if_neg hne0, if_pos ht1]
    exact ⟨fun y hy => (by cases hy), fun _ => hnsq, fun _ => rfl⟩

/-! ### `Exp` and `Legendre` against the model's own power -/

theorem exp_eq_pow (x : Fr) (e : ℕ) : exp x e = x ^ e := by
  apply toZ_injective; rw [exp_spec, toZ_pow]

/-- **`Legendre`.** `x^((r−1)/2)` is `0` for `0`, `1` for non-zero squares and `−1` otherwise. -/
theorem legendre_spec (x : Fr) :
    (Fr.legendre x = 0 ↔ x = 0) ∧ (Fr.legendre x = 1 ↔ (x ≠ 0 ∧ IsSquare (Zp.toZ x))) := by
  have hexp : (R - 1) / 2 = R / 2 := by decide
  have hpow : Zp.toZ (x ^ ((R - 1) / 2)) = Zp.toZ x ^ (R / 2) := by rw [toZ_pow, hexp]
  unfold Fr.legendre
  simp only
  by_cases hx0 : x = 0
  · subst hx0
    have : ((0 : Fr) ^ ((R - 1) / 2)).val = 0 := by decide +kernel
    simp [this]
  · have hxz : Zp.toZ x ≠ 0 := by
      intro h; apply hx0; apply toZ_injective; rw [h, toZ_zero]
    have hne : (x ^ ((R - 1) / 2)).val ≠ 0 := by
      intro h
      have : Zp.toZ (x ^ ((R - 1) / 2)) = 0 := by unfold Zp.toZ; rw [h]; simp
      rw [hpow] at this
      exact hxz (pow_eq_zero_iff (by decide) |>.mp this)
    have heuler := ZMod.euler_criterion R hxz
    rw [if_neg hne]
    constructor
    · constructor
      · intro h; split at h <;> simp at h
      · intro h; exact absurd h hx0
    · constructor
      · intro h
        have h1 : (x ^ ((R - 1) / 2)).val = 1 := by
          by_contra hc; rw [if_neg hc] at h; simp at h
        refine ⟨hx0, ?_⟩
        rw [heuler, ← hpow]; exact (toZ_eq_one_iff _).mpr h1
      · rintro ⟨_, hsq⟩
        rw [heuler, ← hpow] at hsq
        rw [if_pos ((toZ_eq_one_iff _).mp hsq)]

end GoIpa.FrSqrt
