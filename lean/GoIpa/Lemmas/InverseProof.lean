/-
  `Element.Inverse` (binary extended Euclid on Montgomery representations) is correct:
  for every `0 < x < r` the loop ends by its own exit tests and returns `z < r` with
  `z·x ≡ 2^512 (mod r)`; hence on values `Inverse(a)·a = 1`.
-/
import Mathlib.Data.ZMod.Basic
import Mathlib.Tactic.Ring
import Mathlib.Tactic.LinearCombination
import GoIpa.Model.FrInverse
import GoIpa.Lemmas.Primes
import GoIpa.Lemmas.Cios
import GoIpa.Lemmas.ZpField
namespace GoIpa.FrInv
open GoIpa

instance : Fact (Nat.Prime R) := ⟨Primes.R_prime⟩

theorem R_odd : R % 2 = 1 := by decide
theorem R_lt : 2 * R < W256 := by decide
theorem two_ne_zero' : (2 : ZMod R) ≠ 0 := by
  intro h
  have : ((2 : ℕ) : ZMod R) = 0 := by exact_mod_cast h
  rw [ZMod.natCast_eq_zero_iff] at this
  have := Nat.le_of_dvd (by decide) this
  exact absurd this (by decide)

/-- the relation the loop maintains between a cofactor `s` and its value `v` -/
def Rel (X s v : ℕ) : Prop := (s : ZMod R) * (X : ZMod R) = (v : ZMod R) * (rSquare : ZMod R)

/-- **Inner loop.** Halving an even, positive `v` together with its cofactor. -/
theorem halve_spec (X u : ℕ) : ∀ (fuel v s : ℕ), 0 < v → v < 2 ^ fuel → s < R → Rel X s v → Nat.Coprime u v →
    (halve fuel v s).1 % 2 = 1 ∧ 0 < (halve fuel v s).1 ∧ (halve fuel v s).1 ≤ v ∧ (halve fuel v s).2 < R ∧
    Rel X (halve fuel v s).2 (halve fuel v s).1 ∧ Nat.Coprime u (halve fuel v s).1 := by
  intro fuel
  induction fuel with
  | zero => intro v s hv hlt; simp at hlt; omega
  | succ fuel ih =>
    intro v s hv hlt hs hrel hco
    unfold halve
    by_cases hev : v % 2 = 0
    · rw [if_pos hev]
      simp only
      have hv2 : 0 < v / 2 := by omega
      have hlt2 : v / 2 < 2 ^ fuel := by rw [Nat.pow_succ] at hlt; omega
      have hR := R_odd
      have hRl := R_lt
      -- the adjusted cofactor is even and below 2r
      set s1 := if s % 2 = 1 then (s + R) % W256 else s with hs1
      have hs1v : s1 % 2 = 0 ∧ s1 < 2 * R ∧ (s1 : ZMod R) = (s : ZMod R) := by
        by_cases hodd : s % 2 = 1
        · rw [hs1, if_pos hodd, Nat.mod_eq_of_lt (show s + R < W256 by omega)]
          refine ⟨by omega, by omega, ?_⟩
          rw [Nat.cast_add, ZMod.natCast_self, add_zero]
        · rw [hs1, if_neg hodd]
          exact ⟨by omega, by omega, rfl⟩
      obtain ⟨he, hb, hc⟩ := hs1v
      have hrel2 : Rel X (s1 / 2) (v / 2) := by
        unfold Rel at hrel ⊢
        have e1 : ((s1 / 2 : ℕ) : ZMod R) * 2 = (s1 : ZMod R) := by
          have : s1 / 2 * 2 = s1 := by omega
          exact_mod_cast congrArg (Nat.cast (R := ZMod R)) this
        have e2 : ((v / 2 : ℕ) : ZMod R) * 2 = (v : ZMod R) := by
          have : v / 2 * 2 = v := by omega
          exact_mod_cast congrArg (Nat.cast (R := ZMod R)) this
        apply mul_right_cancel₀ two_ne_zero'
        rw [hc] at e1
        linear_combination hrel + (X : ZMod R) * e1 - (rSquare : ZMod R) * e2
      have hco2 : Nat.Coprime u (v / 2) := Nat.Coprime.coprime_dvd_right (Nat.div_dvd_of_dvd (by omega)) hco
      obtain ⟨a, b, c, d, e, f⟩ := ih (v / 2) (s1 / 2) hv2 hlt2 (by omega) hrel2 hco2
      exact ⟨a, b, by omega, d, e, f⟩
    · rw [if_neg hev]
      exact ⟨by omega, hv, Nat.le_refl _, hs, hrel, hco⟩

theorem subMod_spec (a b : ℕ) (ha : a < R) (hb : b < R) :
    subMod a b < R ∧ ((subMod a b : ℕ) : ZMod R) = (a : ZMod R) - (b : ZMod R) := by
  have hRl := R_lt
  unfold subMod
  by_cases h : a < b
  · rw [if_pos h]
    have e1 : (a + W256 - b) % W256 = a + W256 - b := Nat.mod_eq_of_lt (by omega)
    have e2 : (a + W256 - b + R) % W256 = a + R - b := by
      have : a + W256 - b + R = (a + R - b) + W256 := by omega
      rw [this, Nat.add_mod_right, Nat.mod_eq_of_lt (by omega)]
    rw [e1, e2]
    refine ⟨by omega, ?_⟩
    rw [Nat.cast_sub (by omega), Nat.cast_add, ZMod.natCast_self, add_zero]
  · rw [if_neg h]
    exact ⟨by omega, by rw [Nat.cast_sub (by omega)]⟩

/-- **Outer loop.** With enough fuel for the measure `u + v`, the loop leaves by one of its two
exit tests and what it returns is the cofactor of `1`. -/
theorem loop_spec (X : ℕ) : ∀ (fuel u v r s : ℕ), u + v ≤ fuel → 0 < u → 0 < v → u ≤ R → v ≤ R → r < R → s < R →
    Rel X r u → Rel X s v → Nat.Coprime u v →
    loop fuel u v r s < R ∧ ((loop fuel u v r s : ℕ) : ZMod R) * (X : ZMod R) = (rSquare : ZMod R) := by
  intro fuel
  induction fuel with
  | zero => intro u v r s h hu hv; omega
  | succ fuel ih =>
    intro u v r s hfuel hu hv huR hvR hr hs hru hsv hco
    have hRl := R_lt
    have hW : R < 2 ^ 256 := by decide
    unfold loop
    obtain ⟨v1, v2, v3, v4, v5, v6⟩ := halve_spec X u 256 v s hv (by omega) hs hsv hco
    obtain ⟨u1, u2, u3, u4, u5, u6⟩ := halve_spec X (halve 256 v s).1 256 u r hu (by omega) hr hru v6.symm
    simp only
    generalize (halve 256 v s).1 = v' at *
    generalize (halve 256 v s).2 = s' at *
    generalize (halve 256 u r).1 = u' at *
    generalize (halve 256 u r).2 = r' at *
    have hcop : Nat.Coprime u' v' := u6.symm
    by_cases hge : v' ≥ u'
    · rw [if_pos hge]
      have e : (v' + W256 - u') % W256 = v' - u' := by
        have : v' + W256 - u' = (v' - u') + W256 := by omega
        rw [this, Nat.add_mod_right, Nat.mod_eq_of_lt (by unfold W256; omega)]
      rw [e]
      obtain ⟨sb, sc⟩ := subMod_spec s' r' v4 u4
      by_cases h1 : u' = 1
      · rw [if_pos h1]
        refine ⟨u4, ?_⟩
        have := u5; unfold Rel at this; rw [h1] at this; simpa using this
      · rw [if_neg h1]
        have hrel' : Rel X (subMod s' r') (v' - u') := by
          unfold Rel at v5 u5 ⊢
          rw [sc, Nat.cast_sub hge]
          linear_combination v5 - u5
        by_cases h2 : v' - u' = 1
        · rw [if_pos h2]
          refine ⟨sb, ?_⟩
          unfold Rel at hrel'; rw [h2] at hrel'; simpa using hrel'
        · rw [if_neg h2]
          have hco' : Nat.Coprime u' (v' - u') := by
            rw [Nat.coprime_sub_self_right hge]; exact hcop
          have hpos : 0 < v' - u' := by
            rcases Nat.eq_zero_or_pos (v' - u') with h0 | h0
            · rw [h0] at hco'; simp at hco'; exact absurd hco' h1
            · exact h0
          exact ih u' (v' - u') r' (subMod s' r') (by omega) u2 hpos (by omega) (by omega) u4 sb u5 hrel' hco'
    · rw [if_neg hge]
      have hlt : v' < u' := by omega
      have e : (u' + W256 - v') % W256 = u' - v' := by
        have : u' + W256 - v' = (u' - v') + W256 := by omega
        rw [this, Nat.add_mod_right, Nat.mod_eq_of_lt (by unfold W256; omega)]
      rw [e]
      obtain ⟨sb, sc⟩ := subMod_spec r' s' u4 v4
      have hrel' : Rel X (subMod r' s') (u' - v') := by
        unfold Rel at v5 u5 ⊢
        rw [sc, Nat.cast_sub (by omega)]
        linear_combination u5 - v5
      by_cases h1 : u' - v' = 1
      · rw [if_pos h1]
        refine ⟨sb, ?_⟩
        unfold Rel at hrel'; rw [h1] at hrel'; simpa using hrel'
      · rw [if_neg h1]
        by_cases h2 : v' = 1
        · rw [if_pos h2]
          refine ⟨v4, ?_⟩
          have := v5; unfold Rel at this; rw [h2] at this; simpa using this
        · rw [if_neg h2]
          have hco' : Nat.Coprime (u' - v') v' := by
            rw [Nat.coprime_sub_self_left (by omega)]; exact hcop
          exact ih (u' - v') v' (subMod r' s') s' (by omega) (by omega) v2 (by omega) (by omega) sb v4 hrel' v5 hco'

theorem rSquare_eq : rSquare = W256 * W256 % R := by decide

/-- **`Inverse` on Montgomery representations.** For every `0 < x < r`: the result `z` is fully
reduced and `z·x ≡ 2^256·2^256 (mod r)`; `Inverse(0) = 0`. -/
theorem inverseMont_spec (x : ℕ) (hx0 : 0 < x) (hx : x < R) :
    inverseMont x < R ∧ ((inverseMont x : ℕ) : ZMod R) * (x : ZMod R) = (W256 : ZMod R) * (W256 : ZMod R) := by
  unfold inverseMont
  rw [if_neg (by omega)]
  have hco : Nat.Coprime R x := by
    rw [Nat.coprime_comm]
    exact Nat.Coprime.symm ((Nat.Prime.coprime_iff_not_dvd Primes.R_prime).mpr (fun h => by
      have := Nat.le_of_dvd hx0 h; omega))
  obtain ⟨a, b⟩ := loop_spec x (R + x) R x 0 rSquare (Nat.le_refl _) (by decide) hx0 (Nat.le_refl _) (by omega)
    (by decide) (by decide) (by unfold Rel; simp) (by unfold Rel; ring) hco
  refine ⟨a, ?_⟩
  rw [b, rSquare_eq, ZMod.natCast_mod, Nat.cast_mul]

theorem inverseMont_zero : inverseMont 0 = 0 := rfl

/-! ### on values -/

theorem ofNat_limbs (z : ℕ) (hz : z < W256) : (Limbs.ofNat z).ok ∧ (Limbs.ofNat z).val = z := by
  unfold Limbs.ofNat Limbs.L4.ok Limbs.L4.val Limbs.W W256 at *
  simp only
  omega

theorem W256_ne_zero : (W256 : ZMod R) ≠ 0 := by
  rw [Ne, ZMod.natCast_eq_zero_iff]
  decide

instance : Fact (2 < R) := ⟨by decide⟩

/-- **`Inverse` on values.** For every non-zero scalar `a`, converting to Montgomery form, running
the loop and converting back gives the multiplicative inverse; `Inverse(0) = 0`. -/
theorem inverseValue_spec (a : Fr) (ha : a ≠ 0) : inverseValue a * a = 1 := by
  apply Zp.toZ_injective
  rw [Zp.toZ_mul, Zp.toZ_one]
  unfold inverseValue
  simp only
  have ha' : Zp.toZ a ≠ 0 := by
    intro h; apply ha; apply Zp.toZ_injective; rw [h, Zp.toZ_zero]
  -- the Montgomery representation of `a`
  set x := a.val * W256 % R with hx
  have hxR : x < R := Nat.mod_lt _ (by decide)
  have hxc : (x : ZMod R) = Zp.toZ a * (W256 : ZMod R) := by
    rw [hx, ZMod.natCast_mod, Nat.cast_mul]; rfl
  have hx0 : 0 < x := by
    rcases Nat.eq_zero_or_pos x with h0 | h0
    · exfalso
      have : (x : ZMod R) = 0 := by rw [h0]; simp
      rw [hxc] at this
      rcases mul_eq_zero.mp this with h | h
      · exact ha' h
      · exact W256_ne_zero h
    · exact h0
  obtain ⟨hzR, hz⟩ := inverseMont_spec x hx0 hxR
  obtain ⟨hok, hval⟩ := ofNat_limbs (inverseMont x) (Nat.lt_trans hzR (by decide))
  obtain ⟨_, hlt, hfm⟩ := Cios.fromMontG_correct (Limbs.ofNat (inverseMont x)) hok
  rw [hval] at hfm
  -- `w·2^256 = z` in `ZMod r`
  have hw : ((Limbs.fromMontG (Limbs.ofNat (inverseMont x))).val : ZMod R) * (W256 : ZMod R) = (inverseMont x : ZMod R) := by
    have h1 : ((Limbs.fromMontG (Limbs.ofNat (inverseMont x))).val * W256 : ℕ) % R = inverseMont x % R := by
      have : Limbs.W * Limbs.W * Limbs.W * Limbs.W = W256 := by decide
      rw [← this]; exact hfm
    have := (ZMod.natCast_eq_natCast_iff' _ _ R).mpr h1
    rw [Nat.cast_mul] at this
    exact this
  rw [Zp.toZ_ofNat]
  have hW := W256_ne_zero
  apply mul_right_cancel₀ hW
  apply mul_right_cancel₀ hW
  rw [hxc] at hz
  rw [← hw] at hz
  linear_combination hz

theorem inverseValue_zero : inverseValue (0 : Fr) = 0 := by decide +kernel

/-- the loop computes the field inverse the rest of the model uses (`0⁻¹ = 0` included) -/
theorem inverseValue_eq_inv (a : Fr) : inverseValue a = a⁻¹ := by
  by_cases ha : a = 0
  · subst ha; rw [inverseValue_zero]
    apply Zp.toZ_injective
    rw [Zp.toZ_inv, Zp.toZ_zero, inv_zero]
  · have h := inverseValue_spec a ha
    exact eq_inv_of_mul_eq_one_left h

end GoIpa.FrInv
