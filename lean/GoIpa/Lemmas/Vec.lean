/-
  Linear algebra on lists: `msm`, `innerProd`, `foldScalars`, `foldPoints`.
-/
import Mathlib.Tactic.Module
import Mathlib.Tactic.Ring
import Mathlib.Tactic.Abel
import Mathlib.Algebra.Module.Basic
import Mathlib.Algebra.BigOperators.Group.List.Basic
import GoIpa.Model.Ipa
namespace GoIpa

section
variable {F G : Type} [Field F] [AddCommGroup G] [Module F G]

theorem foldl_add_eq_sum {M : Type} [AddCommMonoid M] (l : List M) (z : M) : l.foldl (· + ·) z = z + l.sum := by
  induction l generalizing z with
  | nil => simp
  | cons x xs ih => simp [ih, add_assoc]

theorem sumF_eq (l : List F) : sumF l = l.sum := by
  unfold sumF; rw [foldl_add_eq_sum]; simp

theorem msm_eq (ps : List G) (ss : List F) : msm ps ss = (List.zipWith (fun (s : F) (p : G) => s • p) ss ps).sum := by
  unfold msm; rw [foldl_add_eq_sum]; simp

theorem innerProd_eq (a b : List F) : innerProd a b = (List.zipWith (· * ·) a b).sum := by
  unfold innerProd; rw [sumF_eq]

@[simp] theorem msm_nil_left (ss : List F) : msm ([] : List G) ss = 0 := by simp [msm_eq]
@[simp] theorem msm_nil_right (ps : List G) : msm ps ([] : List F) = 0 := by simp [msm_eq]
@[simp] theorem msm_cons (p : G) (ps : List G) (s : F) (ss : List F) : msm (p :: ps) (s :: ss) = s • p + msm ps ss := by
  simp [msm_eq]
@[simp] theorem innerProd_nil_left (b : List F) : innerProd ([] : List F) b = 0 := by simp [innerProd_eq]
@[simp] theorem innerProd_nil_right (a : List F) : innerProd a ([] : List F) = 0 := by simp [innerProd_eq]
@[simp] theorem innerProd_cons (x : F) (a : List F) (y : F) (b : List F) :
    innerProd (x :: a) (y :: b) = x * y + innerProd a b := by simp [innerProd_eq]

/-- `msm` over folded scalars -/
theorem msm_foldScalars (g : List G) (a a' : List F) (x : F) (h : a.length = a'.length) :
    msm g (foldScalars a a' x) = msm g a + x • msm g a' := by
  induction g generalizing a a' with
  | nil => simp
  | cons p g ih =>
    cases a with
    | nil => cases a' with
      | nil => simp [foldScalars]
      | cons _ _ => simp at h
    | cons y a => cases a' with
      | nil => simp at h
      | cons y' a' =>
        simp only [foldScalars, List.zipWith_cons_cons, msm_cons]
        have := ih a a' (by simpa using h)
        simp only [foldScalars] at this
        rw [this]; module

/-- `msm` over folded points -/
theorem msm_foldPoints (g g' : List G) (a : List F) (x : F) (h : g.length = g'.length) :
    msm (foldPoints g g' x) a = msm g a + x • msm g' a := by
  induction a generalizing g g' with
  | nil => simp
  | cons s a ih =>
    cases g with
    | nil => cases g' with
      | nil => simp [foldPoints]
      | cons _ _ => simp at h
    | cons p g => cases g' with
      | nil => simp at h
      | cons p' g' =>
        simp only [foldPoints, List.zipWith_cons_cons, msm_cons]
        have := ih g g' (by simpa using h)
        simp only [foldPoints] at this
        rw [this]; module

theorem innerProd_foldScalars_left (a a' b : List F) (x : F) (h : a.length = a'.length) :
    innerProd (foldScalars a a' x) b = innerProd a b + x * innerProd a' b := by
  induction b generalizing a a' with
  | nil => simp
  | cons y b ih =>
    cases a with
    | nil => cases a' with
      | nil => simp [foldScalars]
      | cons _ _ => simp at h
    | cons z a => cases a' with
      | nil => simp at h
      | cons z' a' =>
        simp only [foldScalars, List.zipWith_cons_cons, innerProd_cons]
        have := ih a a' (by simpa using h)
        simp only [foldScalars] at this
        rw [this]; ring

theorem innerProd_comm (a b : List F) : innerProd a b = innerProd b a := by
  induction a generalizing b with
  | nil => simp
  | cons x a ih => cases b with
    | nil => simp
    | cons y b => simp [ih b, mul_comm]

theorem innerProd_foldScalars_right (a b b' : List F) (x : F) (h : b.length = b'.length) :
    innerProd a (foldScalars b b' x) = innerProd a b + x * innerProd a b' := by
  rw [innerProd_comm, innerProd_foldScalars_left _ _ _ _ h, innerProd_comm b a, innerProd_comm b' a]

theorem foldScalars_length (a b : List F) (x : F) : (foldScalars a b x).length = min a.length b.length := by
  simp [foldScalars]

theorem foldPoints_length (a b : List G) (x : F) : (foldPoints a b x).length = min a.length b.length := by
  simp [foldPoints]

/-- splitting a sum at `m` -/
theorem msm_split (g : List G) (a : List F) (m : Nat) :
    msm g a = msm (g.take m) (a.take m) + msm (g.drop m) (a.drop m) := by
  induction m generalizing g a with
  | zero => simp
  | succ m ih =>
    cases g with
    | nil => simp
    | cons p g => cases a with
      | nil => simp
      | cons s a =>
        simp only [List.take_succ_cons, List.drop_succ_cons, msm_cons]
        rw [ih g a]; abel

theorem innerProd_split (a b : List F) (m : Nat) :
    innerProd a b = innerProd (a.take m) (b.take m) + innerProd (a.drop m) (b.drop m) := by
  induction m generalizing a b with
  | zero => simp
  | succ m ih =>
    cases a with
    | nil => simp
    | cons x a => cases b with
      | nil => simp
      | cons y b =>
        simp only [List.take_succ_cons, List.drop_succ_cons, innerProd_cons]
        rw [ih a b]; ring

end
end GoIpa
