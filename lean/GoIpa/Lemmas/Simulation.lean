/-
  Representation independence of the protocol model ("simulation").

  The prover and verifier of `Model/Ipa.lean` and `Model/Multiproof.lean` are generic in the group.
  If two group-like types `G₁`, `G₂` are connected by a relation `ρ` that is preserved by
  `0, +, −, s •`, under which related elements have the same encoding and the same equality test,
  then every function of the model maps related inputs to related outputs, with *equal*
  transcripts, challenges, field values, errors and decisions.

  Instantiated in `Props/ConcreteExec.lean` with `G₁ = Pt` (projective coordinates over `Fp`, the
  executable type the driver runs against the Go code), `G₂ = BW` (the Banderwagon group, an
  `Fr`-vector space by `C08.card_BW`) and `ρ p x := p represents x`, this transports the
  theorems proved over abstract modules to the very functions that are executed.
-/
import GoIpa.Model.Multiproof
import Mathlib.Data.List.Forall2
set_option linter.unusedSectionVars false
namespace GoIpa.Sim
open GoIpa

variable {F G₁ G₂ : Type} [Zero F] [One F] [Add F] [Sub F] [Mul F] [Neg F] [Inv F] [NatCast F] [DecidableEq F]
variable [Zero G₁] [Add G₁] [Sub G₁] [SMul F G₁] [Zero G₂] [Add G₂] [Sub G₂] [SMul F G₂]

/-- `ρ` is a representation relation between two instances of the model's group interface -/
structure Rel (enc₁ : Enc F G₁) (enc₂ : Enc F G₂) (ρ : G₁ → G₂ → Prop) : Prop where
  zero : ρ 0 0
  add : ∀ {a a' b b'}, ρ a b → ρ a' b' → ρ (a + a') (b + b')
  sub : ∀ {a a' b b'}, ρ a b → ρ a' b' → ρ (a - a') (b - b')
  smul : ∀ (s : F) {a b}, ρ a b → ρ (s • a) (s • b)
  bytes : ∀ {a b}, ρ a b → enc₁.ptBytes a = enc₂.ptBytes b
  sc : enc₁.scBytes = enc₂.scBytes
  chal : enc₁.chal = enc₂.chal
  eq : ∀ {a a' b b'}, ρ a b → ρ a' b' → enc₁.eqG a a' = enc₂.eqG b b'

variable {enc₁ : Enc F G₁} {enc₂ : Enc F G₂} {ρ : G₁ → G₂ → Prop}

/-- related configurations: same scalar side, related basis and `Q` -/
structure CfgRel (ρ : G₁ → G₂ → Prop) (c₁ : IpaCfg F G₁) (c₂ : IpaCfg F G₂) : Prop where
  srs : List.Forall₂ ρ c₁.srs c₂.srs
  Q : ρ c₁.Q c₂.Q
  weights : c₁.weights = c₂.weights
  N : c₁.N = c₂.N
  rounds : c₁.rounds = c₂.rounds
  inDomain : c₁.inDomain = c₂.inDomain

/-- related proofs -/
structure IpaRel (ρ : G₁ → G₂ → Prop) (p₁ : IpaProof F G₁) (p₂ : IpaProof F G₂) : Prop where
  L : List.Forall₂ ρ p₁.L p₂.L
  R : List.Forall₂ ρ p₁.R p₂.R
  a : p₁.a = p₂.a

structure MpRel (ρ : G₁ → G₂ → Prop) (p₁ : MultiProof F G₁) (p₂ : MultiProof F G₂) : Prop where
  ipa : IpaRel ρ p₁.ipa p₂.ipa
  D : ρ p₁.D p₂.D

section
variable (h : Rel enc₁ enc₂ ρ)
include h

theorem appendPoint_eq (tr : Tr) {a : G₁} {b : G₂} (hab : ρ a b) (l : Bytes) :
    tr.appendPoint enc₁ a l = tr.appendPoint enc₂ b l := by
  unfold Tr.appendPoint; rw [h.bytes hab]

theorem appendScalar_eq (tr : Tr) (s : F) (l : Bytes) :
    tr.appendScalar enc₁ s l = tr.appendScalar enc₂ s l := by
  unfold Tr.appendScalar; rw [h.sc]

theorem challenge_eq (tr : Tr) (l : Bytes) :
    (tr.challenge enc₁ l : F × Tr) = tr.challenge enc₂ l := by
  unfold Tr.challenge Tr.appendScalar; rw [h.sc, h.chal]

theorem foldl_add {l₁ : List G₁} {l₂ : List G₂} (hl : List.Forall₂ ρ l₁ l₂) {a : G₁} {b : G₂} (hab : ρ a b) :
    ρ (l₁.foldl (· + ·) a) (l₂.foldl (· + ·) b) := by
  induction hl generalizing a b with
  | nil => exact hab
  | cons hxy _ ih => exact ih (h.add hab hxy)

theorem zipWith_smul {ps : List G₁} {qs : List G₂} (hl : List.Forall₂ ρ ps qs) (ss : List F) :
    List.Forall₂ ρ (List.zipWith (fun (s : F) (p : G₁) => s • p) ss ps)
      (List.zipWith (fun (s : F) (p : G₂) => s • p) ss qs) := by
  induction hl generalizing ss with
  | nil => cases ss <;> simp
  | cons hxy _ ih =>
    cases ss with
    | nil => simp
    | cons s ss => exact List.Forall₂.cons (h.smul s hxy) (ih ss)

theorem msm_rel {ps : List G₁} {qs : List G₂} (hl : List.Forall₂ ρ ps qs) (ss : List F) :
    ρ (msm ps ss) (msm qs ss) := by
  unfold msm
  exact foldl_add h (zipWith_smul h hl ss) h.zero

theorem foldPoints_rel {a₁ b₁ : List G₁} {a₂ b₂ : List G₂} (ha : List.Forall₂ ρ a₁ a₂)
    (hb : List.Forall₂ ρ b₁ b₂) (x : F) :
    List.Forall₂ ρ (foldPoints a₁ b₁ x) (foldPoints a₂ b₂ x) := by
  unfold foldPoints
  induction ha generalizing b₁ b₂ with
  | nil => simp
  | cons hxy _ ih =>
    cases hb with
    | nil => simp
    | cons hb1 hbs => exact List.Forall₂.cons (h.add (h.smul x hb1) hxy) (ih hbs)

theorem take_rel {l₁ : List G₁} {l₂ : List G₂} (hl : List.Forall₂ ρ l₁ l₂) (n : Nat) :
    List.Forall₂ ρ (l₁.take n) (l₂.take n) := List.forall₂_take n hl

theorem drop_rel {l₁ : List G₁} {l₂ : List G₂} (hl : List.Forall₂ ρ l₁ l₂) (n : Nat) :
    List.Forall₂ ρ (l₁.drop n) (l₂.drop n) := List.forall₂_drop n hl

/-- the folding rounds of the prover -/
theorem ipaRounds_rel {q₁ : G₁} {q₂ : G₂} (hq : ρ q₁ q₂) (n : Nat) (tr : Tr) (a b : List F)
    {g₁ : List G₁} {g₂ : List G₂} (hg : List.Forall₂ ρ g₁ g₂) :
    List.Forall₂ ρ (ipaRounds enc₁ q₁ n tr a b g₁).1 (ipaRounds enc₂ q₂ n tr a b g₂).1 ∧
    List.Forall₂ ρ (ipaRounds enc₁ q₁ n tr a b g₁).2.1 (ipaRounds enc₂ q₂ n tr a b g₂).2.1 ∧
    (ipaRounds enc₁ q₁ n tr a b g₁).2.2 = (ipaRounds enc₂ q₂ n tr a b g₂).2.2 := by
  induction n generalizing tr a b g₁ g₂ with
  | zero => exact ⟨List.Forall₂.nil, List.Forall₂.nil, rfl⟩
  | succ n ih =>
    simp only [ipaRounds]
    have hcL : ρ (msm (g₁.take (a.length / 2)) (a.drop (a.length / 2))
          + innerProd (a.drop (a.length / 2)) (b.take (a.length / 2)) • q₁)
        (msm (g₂.take (a.length / 2)) (a.drop (a.length / 2))
          + innerProd (a.drop (a.length / 2)) (b.take (a.length / 2)) • q₂) :=
      h.add (msm_rel h (take_rel h hg _) _) (h.smul _ hq)
    have hcR : ρ (msm (g₁.drop (a.length / 2)) (a.take (a.length / 2))
          + innerProd (a.take (a.length / 2)) (b.drop (a.length / 2)) • q₁)
        (msm (g₂.drop (a.length / 2)) (a.take (a.length / 2))
          + innerProd (a.take (a.length / 2)) (b.drop (a.length / 2)) • q₂) :=
      h.add (msm_rel h (drop_rel h hg _) _) (h.smul _ hq)
    rw [appendPoint_eq h tr hcL, appendPoint_eq h _ hcR, challenge_eq h]
    generalize ((tr.appendPoint enc₂ _ Label.L).appendPoint enc₂ _ Label.R).challenge enc₂ Label.x = xc
    obtain ⟨x, tr'⟩ := xc
    simp only
    have hfp := foldPoints_rel h (take_rel h hg (a.length / 2)) (drop_rel h hg (a.length / 2)) x⁻¹
    obtain ⟨i1, i2, i3⟩ := ih tr' (foldScalars (a.take (a.length / 2)) (a.drop (a.length / 2)) x)
      (foldScalars (b.take (a.length / 2)) (b.drop (a.length / 2)) x⁻¹) hfp
    refine ⟨List.Forall₂.cons hcL i1, List.Forall₂.cons hcR i2, ?_⟩
    simp only [i3]

/-- results of the provers: both fail, or both succeed with related proofs -/
def OptRel {A B : Type} (r : A → B → Prop) : Option A → Option B → Prop
  | none, none => True
  | some a, some b => r a b
  | _, _ => False

theorem ipaProve_rel {c₁ : IpaCfg F G₁} {c₂ : IpaCfg F G₂} (hc : CfgRel ρ c₁ c₂) (tr : Tr)
    {C₁ : G₁} {C₂ : G₂} (hC : ρ C₁ C₂) (a : List F) (z : F) :
    OptRel (IpaRel ρ) (ipaProve enc₁ c₁ tr C₁ a z).1 (ipaProve enc₂ c₂ tr C₂ a z).1 ∧
    (ipaProve enc₁ c₁ tr C₁ a z).2 = (ipaProve enc₂ c₂ tr C₂ a z).2 := by
  unfold ipaProve
  have hb : bVector c₁ z = bVector c₂ z := by
    unfold bVector; rw [hc.inDomain, hc.weights, hc.N]
  simp only [hb, appendPoint_eq h _ hC, appendScalar_eq h, challenge_eq h, hc.rounds]
  generalize ((((tr.domainSep Label.ipa).appendPoint enc₂ C₂ Label.C).appendScalar enc₂ z Label.inputPoint).appendScalar enc₂
    (innerProd a (bVector c₂ z)) Label.outputPoint).challenge enc₂ Label.w = wc
  obtain ⟨w, tr'⟩ := wc
  simp only
  obtain ⟨i1, i2, i3⟩ := ipaRounds_rel h (h.smul w hc.Q) c₂.rounds tr' a (bVector c₂ z) hc.srs
  generalize ipaRounds enc₁ (w • c₁.Q) c₂.rounds tr' a (bVector c₂ z) c₁.srs = r1 at i1 i2 i3 ⊢
  generalize ipaRounds enc₂ (w • c₂.Q) c₂.rounds tr' a (bVector c₂ z) c₂.srs = r2 at i1 i2 i3 ⊢
  obtain ⟨L1, R1, af1, t1⟩ := r1
  obtain ⟨L2, R2, af2, t2⟩ := r2
  simp only at i1 i2 i3
  obtain ⟨rfl, rfl⟩ := Prod.mk.inj i3
  simp only
  split
  · exact ⟨⟨i1, i2, rfl⟩, rfl⟩
  · exact ⟨trivial, rfl⟩

theorem genChallenges_eq (tr : Tr) {L₁ R₁ : List G₁} {L₂ R₂ : List G₂} (hL : List.Forall₂ ρ L₁ L₂)
    (hR : List.Forall₂ ρ R₁ R₂) :
    (genChallenges enc₁ tr L₁ R₁ : List F × Tr) = genChallenges enc₂ tr L₂ R₂ := by
  induction hL generalizing tr R₁ R₂ with
  | nil => cases hR <;> simp [genChallenges]
  | cons hl _ ih =>
    cases hR with
    | nil => simp [genChallenges]
    | cons hr hrs =>
      simp only [genChallenges]
      rw [appendPoint_eq h tr hl, appendPoint_eq h _ hr, challenge_eq h]
      generalize ((tr.appendPoint enc₂ _ Label.L).appendPoint enc₂ _ Label.R).challenge enc₂ Label.x = xc
      obtain ⟨x, tr'⟩ := xc
      simp only
      rw [ih tr' hrs]

theorem zip_rel {A : Type} (xs : List A) {l₁ : List G₁} {l₂ : List G₂} (hl : List.Forall₂ ρ l₁ l₂) :
    List.Forall₂ (fun (e₁ : A × G₁) (e₂ : A × G₂) => e₁.1 = e₂.1 ∧ ρ e₁.2 e₂.2) (List.zip xs l₁) (List.zip xs l₂) := by
  induction hl generalizing xs with
  | nil => cases xs <;> simp
  | cons hxy _ ih =>
    cases xs with
    | nil => simp
    | cons x xs => exact List.Forall₂.cons ⟨rfl, hxy⟩ (ih xs)

theorem zip2_rel {a₁ b₁ : List G₁} {a₂ b₂ : List G₂} (ha : List.Forall₂ ρ a₁ a₂) (hb : List.Forall₂ ρ b₁ b₂) :
    List.Forall₂ (fun (e₁ : G₁ × G₁) (e₂ : G₂ × G₂) => ρ e₁.1 e₂.1 ∧ ρ e₁.2 e₂.2) (List.zip a₁ b₁) (List.zip a₂ b₂) := by
  induction ha generalizing b₁ b₂ with
  | nil => simp
  | cons hxy _ ih =>
    cases hb with
    | nil => simp
    | cons hb1 hbs => exact List.Forall₂.cons ⟨hxy, hb1⟩ (ih hbs)

/-- the verifier's accumulation `C + Σ xⱼ Lⱼ + xⱼ⁻¹ Rⱼ` -/
theorem accum_rel (xs xInvs : List F) {L₁ R₁ : List G₁} {L₂ R₂ : List G₂} (hL : List.Forall₂ ρ L₁ L₂)
    (hR : List.Forall₂ ρ R₁ R₂) {c₁ : G₁} {c₂ : G₂} (hc : ρ c₁ c₂) :
    ρ ((List.zip xs (List.zip xInvs (List.zip L₁ R₁))).foldl
        (fun (c : G₁) (e : F × F × G₁ × G₁) => c + e.1 • e.2.2.1 + e.2.1 • e.2.2.2) c₁)
      ((List.zip xs (List.zip xInvs (List.zip L₂ R₂))).foldl
        (fun (c : G₂) (e : F × F × G₂ × G₂) => c + e.1 • e.2.2.1 + e.2.1 • e.2.2.2) c₂) := by
  induction hL generalizing xs xInvs R₁ R₂ c₁ c₂ with
  | nil => simpa using hc
  | cons hl _ ih =>
    cases hR with
    | nil => simpa using hc
    | cons hr hrs =>
      cases xInvs with
      | nil => simpa using hc
      | cons xi xInvs =>
        cases xs with
        | nil => simpa using hc
        | cons x xs =>
          simp only [List.zip_cons_cons, List.foldl_cons]
          exact ih xs xInvs hrs (h.add (h.add hc (h.smul x hl)) (h.smul xi hr))

theorem ipaVerify_eq {c₁ : IpaCfg F G₁} {c₂ : IpaCfg F G₂} (hc : CfgRel ρ c₁ c₂) (tr : Tr)
    {C₁ : G₁} {C₂ : G₂} (hC : ρ C₁ C₂) {p₁ : IpaProof F G₁} {p₂ : IpaProof F G₂} (hp : IpaRel ρ p₁ p₂) (z y : F) :
    ipaVerify enc₁ c₁ tr C₁ p₁ z y = ipaVerify enc₂ c₂ tr C₂ p₂ z y := by
  unfold ipaVerify
  have hb : bVector c₁ z = bVector c₂ z := by
    unfold bVector; rw [hc.inDomain, hc.weights, hc.N]
  have hLl : p₁.L.length = p₂.L.length := hp.L.length_eq
  have hRl : p₁.R.length = p₂.R.length := hp.R.length_eq
  have hsl : c₁.srs.length = c₂.srs.length := hc.srs.length_eq
  simp only [hLl, hRl, hc.rounds, hb, hsl, hp.a]
  split
  · rfl
  split
  · rfl
  rw [appendPoint_eq h _ hC]
  simp only [appendScalar_eq h, challenge_eq h]
  generalize ((((tr.domainSep Label.ipa).appendPoint enc₂ C₂ Label.C).appendScalar enc₂ z Label.inputPoint).appendScalar enc₂
    y Label.outputPoint).challenge enc₂ Label.w = wc
  obtain ⟨w, tr'⟩ := wc
  simp only
  rw [genChallenges_eq h tr' hp.L hp.R]
  generalize genChallenges enc₂ tr' p₂.L p₂.R = gc
  obtain ⟨xs, tr''⟩ := gc
  simp only
  have hq := h.smul w hc.Q
  have hacc := accum_rel h xs (batchInvert xs) hp.L hp.R (h.add hC (h.smul y hq))
  have hg0 := msm_rel h hc.srs ((List.range c₂.srs.length).map (foldingScalar c₂.rounds (batchInvert xs)))
  have hgot := h.add (h.smul p₂.a hg0)
    (h.smul (innerProd (bVector c₂ z) ((List.range c₂.srs.length).map (foldingScalar c₂.rounds (batchInvert xs))) * p₂.a) hq)
  rw [h.eq hgot hacc]

end

/-! ### the multiproof -/

section
variable (h : Rel enc₁ enc₂ ρ)
include h

theorem absorbP_eq (tr : Tr) {Cs₁ : List G₁} {Cs₂ : List G₂} (hCs : List.Forall₂ ρ Cs₁ Cs₂)
    (fs : List (List F)) (zs : List Nat) :
    (List.zip Cs₁ (List.zip fs zs)).foldl (fun (tr : Tr) (e : G₁ × List F × Nat) =>
      let tr := tr.appendPoint enc₁ e.1 Label.C
      let tr := tr.appendScalar enc₁ ((e.2.2 : Nat) : F) Label.z
      tr.appendScalar enc₁ (e.2.1.getD e.2.2 0) Label.y) tr
    = (List.zip Cs₂ (List.zip fs zs)).foldl (fun (tr : Tr) (e : G₂ × List F × Nat) =>
      let tr := tr.appendPoint enc₂ e.1 Label.C
      let tr := tr.appendScalar enc₂ ((e.2.2 : Nat) : F) Label.z
      tr.appendScalar enc₂ (e.2.1.getD e.2.2 0) Label.y) tr := by
  induction hCs generalizing tr fs zs with
  | nil => simp
  | cons hxy _ ih =>
    cases fs with
    | nil => simp
    | cons f fs =>
      cases zs with
      | nil => simp
      | cons z zs =>
        simp only [List.zip_cons_cons, List.foldl_cons]
        rw [appendPoint_eq h tr hxy, appendScalar_eq h _ ((z : Nat) : F) Label.z,
          appendScalar_eq h _ (f.getD z 0) Label.y]
        exact ih _ fs zs

theorem absorbV_eq (tr : Tr) {Cs₁ : List G₁} {Cs₂ : List G₂} (hCs : List.Forall₂ ρ Cs₁ Cs₂)
    (ys : List F) (zs : List Nat) :
    (List.zip Cs₁ (List.zip ys zs)).foldl (fun (tr : Tr) (e : G₁ × F × Nat) =>
      let tr := tr.appendPoint enc₁ e.1 Label.C
      let tr := tr.appendScalar enc₁ ((e.2.2 : Nat) : F) Label.z
      tr.appendScalar enc₁ e.2.1 Label.y) tr
    = (List.zip Cs₂ (List.zip ys zs)).foldl (fun (tr : Tr) (e : G₂ × F × Nat) =>
      let tr := tr.appendPoint enc₂ e.1 Label.C
      let tr := tr.appendScalar enc₂ ((e.2.2 : Nat) : F) Label.z
      tr.appendScalar enc₂ e.2.1 Label.y) tr := by
  induction hCs generalizing tr ys zs with
  | nil => simp
  | cons hxy _ ih =>
    cases ys with
    | nil => simp
    | cons f fs =>
      cases zs with
      | nil => simp
      | cons z zs =>
        simp only [List.zip_cons_cons, List.foldl_cons]
        rw [appendPoint_eq h tr hxy, appendScalar_eq h _ ((z : Nat) : F) Label.z,
          appendScalar_eq h _ f Label.y]
        exact ih _ fs zs

/-- **`CreateMultiProof` is representation independent**: related commitments and configuration
give related proofs (or failure on both sides) and the same transcript. -/
theorem mpProve_rel {c₁ : IpaCfg F G₁} {c₂ : IpaCfg F G₂} (hc : CfgRel ρ c₁ c₂) (tr : Tr)
    {Cs₁ : List G₁} {Cs₂ : List G₂} (hCs : List.Forall₂ ρ Cs₁ Cs₂) (fs : List (List F)) (zs : List Nat)
    (w : Nat) (order : List Nat) :
    OptRel (MpRel ρ) (mpProve enc₁ c₁ tr Cs₁ fs zs w order).1 (mpProve enc₂ c₂ tr Cs₂ fs zs w order).1 ∧
    (mpProve enc₁ c₁ tr Cs₁ fs zs w order).2 = (mpProve enc₂ c₂ tr Cs₂ fs zs w order).2 := by
  unfold mpProve
  simp only [absorbP_eq h _ hCs, hCs.length_eq, hc.N, hc.weights, challenge_eq h]
  generalize ((List.zip Cs₂ (List.zip fs zs)).foldl _ (tr.domainSep Label.multiproof)).challenge enc₂ Label.r = rc
  obtain ⟨r, tr1⟩ := rc
  simp only
  generalize hgdef : (List.zipIdx (groupPolys c₂.N fs (powersOf r Cs₂.length) zs w order)).foldl
    (fun (g : List F) (e : Option (List F) × Nat) =>
      (e.1.map fun f => addVec g (c₂.weights.divideOnDomain c₂.N e.2 f)).getD g) (List.replicate c₂.N 0) = g
  have hD := msm_rel h hc.srs g
  rw [appendPoint_eq h tr1 hD]
  generalize (tr1.appendPoint enc₂ (msm c₂.srs g) Label.D).challenge enc₂ Label.t = tc
  obtain ⟨t, tr2⟩ := tc
  simp only
  generalize hhdef : (List.zip (List.filterMap id (groupPolys c₂.N fs (powersOf r Cs₂.length) zs w order))
    (batchInvert (List.filterMap (fun (e : Option (List F) × Nat) => e.1.map fun _ => t - ((e.2 : Nat) : F))
      (List.zipIdx (groupPolys c₂.N fs (powersOf r Cs₂.length) zs w order))))).foldl
    (fun (hh : List F) (e : List F × F) => addVec hh (e.1.map (· * e.2))) (List.replicate c₂.N 0) = hh
  have hE := msm_rel h hc.srs hh
  rw [appendPoint_eq h tr2 hE]
  obtain ⟨i1, i2⟩ := ipaProve_rel h hc (tr2.appendPoint enc₂ (msm c₂.srs hh) Label.E) (h.sub hE hD)
    (List.zipWith (· - ·) hh g) t
  refine ⟨?_, i2⟩
  generalize (ipaProve enc₁ c₁ _ (msm c₁.srs hh - msm c₁.srs g) _ t).1 = o1 at i1 ⊢
  generalize (ipaProve enc₂ c₂ _ (msm c₂.srs hh - msm c₂.srs g) _ t).1 = o2 at i1 ⊢
  cases o1 <;> cases o2 <;> simp only [OptRel, Option.map] at i1 ⊢
  exact ⟨i1, hD⟩

/-- **`CheckMultiProof` is representation independent**: same decision, error and transcript. -/
theorem mpVerify_eq {c₁ : IpaCfg F G₁} {c₂ : IpaCfg F G₂} (hc : CfgRel ρ c₁ c₂) (tr : Tr)
    {p₁ : MultiProof F G₁} {p₂ : MultiProof F G₂} (hp : MpRel ρ p₁ p₂)
    {Cs₁ : List G₁} {Cs₂ : List G₂} (hCs : List.Forall₂ ρ Cs₁ Cs₂) (ys : List F) (zs : List Nat) :
    mpVerify enc₁ c₁ tr p₁ Cs₁ ys zs = mpVerify enc₂ c₂ tr p₂ Cs₂ ys zs := by
  unfold mpVerify
  simp only [hCs.length_eq, hc.N]
  split
  · rfl
  split
  · rfl
  split
  · rfl
  simp only [absorbV_eq h _ hCs, challenge_eq h]
  generalize ((List.zip Cs₂ (List.zip ys zs)).foldl _ (tr.domainSep Label.multiproof)).challenge enc₂ Label.r = rc
  obtain ⟨r, tr1⟩ := rc
  simp only
  rw [appendPoint_eq h tr1 hp.D]
  generalize (tr1.appendPoint enc₂ p₂.D Label.D).challenge enc₂ Label.t = tc
  obtain ⟨t, tr2⟩ := tc
  simp only
  generalize hsc : List.zipWith (fun (p : F) (z : Nat) =>
    p * (batchInvert ((List.range c₂.N).map fun (i : Nat) => t - (i : F))).getD z 0) (powersOf r Cs₂.length) zs = scalars
  have hE := msm_rel h hCs scalars
  rw [appendPoint_eq h tr2 hE]
  exact ipaVerify_eq h hc _ (h.sub hE hp.D) hp.ipa t _

end

end GoIpa.Sim
