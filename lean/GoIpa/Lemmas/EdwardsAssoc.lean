/-
  Associativity of the unified twisted Edwards addition law as polynomial identities.
  With `Xᵢⱼ = xᵢyⱼ + yᵢxⱼ`, `Yᵢⱼ = yᵢyⱼ − a xᵢxⱼ`, `k = d x₁x₂y₁y₂`, `k' = d x₂x₃y₂y₃` the
  coordinates of `(P₁+P₂)+P₃` and of `P₁+(P₂+P₃)` are the quotients `NL/DL` and `NR/DR` below;
  `NL·DR − NR·DL` lies in the ideal of the three curve equations.  The cofactors were computed
  with sympy (division by the Gröbner basis `{e₁,e₂,e₃}`, whose leading monomials are pairwise
  coprime) and are checked here by `ring` — nothing about the computation is trusted.
-/
import Mathlib.Tactic.Ring
import Mathlib.Tactic.LinearCombination
namespace GoIpa.Edwards

variable {R : Type} [CommRing R]

theorem assoc_x_identity (a d x1 y1 x2 y2 x3 y3 : R)
    (h1 : a * x1 ^ 2 + y1 ^ 2 = 1 + d * x1 ^ 2 * y1 ^ 2)
    (h2 : a * x2 ^ 2 + y2 ^ 2 = 1 + d * x2 ^ 2 * y2 ^ 2)
    (h3 : a * x3 ^ 2 + y3 ^ 2 = 1 + d * x3 ^ 2 * y3 ^ 2) :
    ((x1 * y2 + y1 * x2) * y3 * (1 - d * x1 * x2 * y1 * y2) + (y1 * y2 - a * x1 * x2) * x3 * (1 + d * x1 * x2 * y1 * y2))
      * ((1 + d * x2 * x3 * y2 * y3) * (1 - d * x2 * x3 * y2 * y3) + d * x1 * y1 * (x2 * y3 + y2 * x3) * (y2 * y3 - a * x2 * x3))
    = (x1 * (y2 * y3 - a * x2 * x3) * (1 + d * x2 * x3 * y2 * y3) + y1 * (x2 * y3 + y2 * x3) * (1 - d * x2 * x3 * y2 * y3))
      * ((1 + d * x1 * x2 * y1 * y2) * (1 - d * x1 * x2 * y1 * y2) + d * (x1 * y2 + y1 * x2) * (y1 * y2 - a * x1 * x2) * x3 * y3) := by
  linear_combination
    (-a^2*d*x1*x2^4*x3^2*y2*y3 - a^2*d*x1*x2^3*x3^3*y2^2 + a*d^2*x1*x2^4*x3^2*y2^3*y3
      + a*d*x1*x2^3*x3*y2^2 - a*d*x2^4*x3*y1*y2*y3^2 + a*d*x2^2*x3^3*y1*y2^3 - d^2*x1*x2^3*x3*y2^4*y3^2
      + d^2*x2^4*x3*y1*y2^3*y3^2 + d^2*x2^3*x3^2*y1*y2^4*y3 + d*x1*x2^2*y2^3*y3^3 - d*x1*x2^2*y2^3*y3
      + d*x1*x2*x3*y2^4*y3^2 + d*x2^3*y1*y2^2*y3^3 - d*x2^3*y1*y2^2*y3 - d*x2^2*x3*y1*y2^3
      - d*x2*x3^2*y1*y2^4*y3) * h1
    + (-a^3*x1^3*x2*x3^3 + a^2*d*x1^3*x2^2*x3^2*y2*y3 + a^2*d*x1^3*x2*x3^3*y3^2 - a^2*x1^3*x2*x3*y3^2
      + a^2*x1^3*x2*x3 + a^2*x1^3*x3^2*y2*y3 + a^2*x1^2*x2*x3^2*y1*y3 + a^2*x1^2*x3^3*y1*y2
      - a^2*x1*x2*x3^3*y1^2 + a^2*x1*x2*x3^3 - a*d^2*x1^2*x2^2*x3^3*y1*y2*y3^2 - a*d*x1^3*x2*x3*y2^2*y3^2
      - a*d*x1^3*x3^2*y2*y3^3 + a*d*x1^2*x2^2*x3*y1*y2*y3^2 + a*d*x1^2*x2*x3^2*y1*y2^2*y3
      - a*d*x1^2*x2*x3^2*y1*y3^3 - a*d*x1^2*x3^3*y1*y2*y3^2 + a*d*x1*x2^2*x3^2*y1^2*y2*y3
      - a*d*x1*x2^2*x3^2*y2*y3 + a*d*x1*x2*x3^3*y1^2*y3^2 - a*d*x1*x2*x3^3*y3^2 + a*x1^3*y2*y3^3
      - a*x1^3*y2*y3 + a*x1^2*x2*y1*y3^3 - a*x1^2*x2*y1*y3 + a*x1^2*x3*y1*y2*y3^2 - a*x1^2*x3*y1*y2
      - a*x1*x2*x3*y1^2*y3^2 + a*x1*x2*x3*y1^2 + a*x1*x2*x3*y3^2 - a*x1*x2*x3 + a*x1*x3^2*y1^2*y2*y3
      - a*x1*x3^2*y2*y3 + a*x2*x3^2*y1^3*y3 - a*x2*x3^2*y1*y3 + a*x3^3*y1^3*y2 - a*x3^3*y1*y2
      - d^2*x1^2*x2*x3^2*y1*y2^2*y3^3 - d^2*x1*x2^2*x3^2*y1^2*y2*y3^3 + d^2*x1*x2*x3^3*y1^2*y2^2*y3^2
      - d*x1*x2*x3*y1^2*y2^2*y3^2 + d*x1*x2*x3*y2^2*y3^2 - d*x1*x3^2*y1^2*y2*y3^3 + d*x1*x3^2*y2*y3^3
      + d*x2^2*x3*y1^3*y2*y3^2 - d*x2^2*x3*y1*y2*y3^2 + d*x2*x3^2*y1^3*y2^2*y3 - d*x2*x3^2*y1^3*y3^3
      - d*x2*x3^2*y1*y2^2*y3 + d*x2*x3^2*y1*y3^3 - d*x3^3*y1^3*y2*y3^2 + d*x3^3*y1*y2*y3^2
      + x1*y1^2*y2*y3^3 - x1*y1^2*y2*y3 - x1*y2*y3^3 + x1*y2*y3 + x2*y1^3*y3^3 - x2*y1^3*y3 - x2*y1*y3^3
      + x2*y1*y3 + x3*y1^3*y2*y3^2 - x3*y1^3*y2 - x3*y1*y2*y3^2 + x3*y1*y2) * h2
    + (a^3*x1^3*x2^3*x3 - a^2*x1^3*x2^2*y2*y3 + a^2*x1^3*x2*x3*y2^2 - a^2*x1^3*x2*x3 - a^2*x1^2*x2^3*y1*y3
      - a^2*x1^2*x2^2*x3*y1*y2 + a^2*x1*x2^3*x3*y1^2 - a^2*x1*x2^3*x3 + a*d*x1^2*x2^2*x3*y1*y2
      - a*x1^3*y2^3*y3 + a*x1^3*y2*y3 - a*x1^2*x2*y1*y2^2*y3 + a*x1^2*x2*y1*y3 - a*x1^2*x3*y1*y2^3
      + a*x1^2*x3*y1*y2 - a*x1*x2^2*y1^2*y2*y3 + a*x1*x2^2*y2*y3 + a*x1*x2*x3*y1^2*y2^2 - a*x1*x2*x3*y1^2
      - a*x1*x2*x3*y2^2 + a*x1*x2*x3 - a*x2^3*y1^3*y3 + a*x2^3*y1*y3 - a*x2^2*x3*y1^3*y2 + a*x2^2*x3*y1*y2
      + d*x1^2*x2*y1*y2^2*y3 + d*x1*x2^2*y1^2*y2*y3 - d*x1*x2*x3*y1^2*y2^2 - x1*y1^2*y2^3*y3
      + x1*y1^2*y2*y3 + x1*y2^3*y3 - x1*y2*y3 - x2*y1^3*y2^2*y3 + x2*y1^3*y3 + x2*y1*y2^2*y3 - x2*y1*y3
      - x3*y1^3*y2^3 + x3*y1^3*y2 + x3*y1*y2^3 - x3*y1*y2) * h3

theorem assoc_y_identity (a d x1 y1 x2 y2 x3 y3 : R)
    (h1 : a * x1 ^ 2 + y1 ^ 2 = 1 + d * x1 ^ 2 * y1 ^ 2)
    (h2 : a * x2 ^ 2 + y2 ^ 2 = 1 + d * x2 ^ 2 * y2 ^ 2)
    (h3 : a * x3 ^ 2 + y3 ^ 2 = 1 + d * x3 ^ 2 * y3 ^ 2) :
    ((y1 * y2 - a * x1 * x2) * y3 * (1 + d * x1 * x2 * y1 * y2) - a * (x1 * y2 + y1 * x2) * x3 * (1 - d * x1 * x2 * y1 * y2))
      * ((1 + d * x2 * x3 * y2 * y3) * (1 - d * x2 * x3 * y2 * y3) - d * x1 * y1 * (x2 * y3 + y2 * x3) * (y2 * y3 - a * x2 * x3))
    = (y1 * (y2 * y3 - a * x2 * x3) * (1 + d * x2 * x3 * y2 * y3) - a * x1 * (x2 * y3 + y2 * x3) * (1 - d * x2 * x3 * y2 * y3))
      * ((1 + d * x1 * x2 * y1 * y2) * (1 - d * x1 * x2 * y1 * y2) - d * (x1 * y2 + y1 * x2) * (y1 * y2 - a * x1 * x2) * x3 * y3) := by
  linear_combination
    (a^2*d*x1*x2^4*x3*y2*y3^2 - a^2*d*x1*x2^2*x3^3*y2^3 - a^2*d*x2^4*x3^2*y1*y2*y3
      - a^2*d*x2^3*x3^3*y1*y2^2 - a*d^2*x1*x2^4*x3*y2^3*y3^2 - a*d^2*x1*x2^3*x3^2*y2^4*y3
      + a*d^2*x2^4*x3^2*y1*y2^3*y3 - a*d*x1*x2^3*y2^2*y3^3 + a*d*x1*x2^3*y2^2*y3 + a*d*x1*x2^2*x3*y2^3
      + a*d*x1*x2*x3^2*y2^4*y3 + a*d*x2^3*x3*y1*y2^2 - d^2*x2^3*x3*y1*y2^4*y3^2 + d*x2^2*y1*y2^3*y3^3
      - d*x2^2*y1*y2^3*y3 + d*x2*x3*y1*y2^4*y3^2) * h1
    + (-a^3*x1^3*x2*x3^2*y3 - a^3*x1^3*x3^3*y2 - a^3*x1^2*x2*x3^3*y1 - a^2*d*x1^3*x2^2*x3*y2*y3^2
      - a^2*d*x1^3*x2*x3^2*y2^2*y3 + a^2*d*x1^3*x2*x3^2*y3^3 + a^2*d*x1^3*x3^3*y2*y3^2
      + a^2*d*x1^2*x2^2*x3^2*y1*y2*y3 + a^2*d*x1^2*x2*x3^3*y1*y3^2 - a^2*x1^3*x2*y3^3 + a^2*x1^3*x2*y3
      - a^2*x1^3*x3*y2*y3^2 + a^2*x1^3*x3*y2 - a^2*x1^2*x2*x3*y1*y3^2 + a^2*x1^2*x2*x3*y1
      + a^2*x1^2*x3^2*y1*y2*y3 - a^2*x1*x2*x3^2*y1^2*y3 + a^2*x1*x2*x3^2*y3 - a^2*x1*x3^3*y1^2*y2
      + a^2*x1*x3^3*y2 - a^2*x2*x3^3*y1^3 + a^2*x2*x3^3*y1 - a*d^2*x1^2*x2^2*x3^2*y1*y2*y3^3
      + a*d^2*x1^2*x2*x3^3*y1*y2^2*y3^2 + a*d^2*x1*x2^2*x3^3*y1^2*y2*y3^2 - a*d*x1^2*x2*x3*y1*y2^2*y3^2
      - a*d*x1^2*x3^2*y1*y2*y3^3 - a*d*x1*x2^2*x3*y1^2*y2*y3^2 + a*d*x1*x2^2*x3*y2*y3^2
      - a*d*x1*x2*x3^2*y1^2*y2^2*y3 + a*d*x1*x2*x3^2*y1^2*y3^3 + a*d*x1*x2*x3^2*y2^2*y3
      - a*d*x1*x2*x3^2*y3^3 + a*d*x1*x3^3*y1^2*y2*y3^2 - a*d*x1*x3^3*y2*y3^2 + a*d*x2^2*x3^2*y1^3*y2*y3
      - a*d*x2^2*x3^2*y1*y2*y3 + a*d*x2*x3^3*y1^3*y3^2 - a*d*x2*x3^3*y1*y3^2 + a*x1^2*y1*y2*y3^3
      - a*x1^2*y1*y2*y3 - a*x1*x2*y1^2*y3^3 + a*x1*x2*y1^2*y3 + a*x1*x2*y3^3 - a*x1*x2*y3
      - a*x1*x3*y1^2*y2*y3^2 + a*x1*x3*y1^2*y2 + a*x1*x3*y2*y3^2 - a*x1*x3*y2 - a*x2*x3*y1^3*y3^2
      + a*x2*x3*y1^3 + a*x2*x3*y1*y3^2 - a*x2*x3*y1 + a*x3^2*y1^3*y2*y3 - a*x3^2*y1*y2*y3
      + d^2*x1*x2*x3^2*y1^2*y2^2*y3^3 - d*x2*x3*y1^3*y2^2*y3^2 + d*x2*x3*y1*y2^2*y3^2 - d*x3^2*y1^3*y2*y3^3
      + d*x3^2*y1*y2*y3^3 + y1^3*y2*y3^3 - y1^3*y2*y3 - y1*y2*y3^3 + y1*y2*y3) * h2
    + (a^3*x1^3*x2^3*y3 + a^3*x1^3*x2^2*x3*y2 + a^3*x1^2*x2^3*x3*y1 + a^2*x1^3*x2*y2^2*y3 - a^2*x1^3*x2*y3
      + a^2*x1^3*x3*y2^3 - a^2*x1^3*x3*y2 - a^2*x1^2*x2^2*y1*y2*y3 + a^2*x1^2*x2*x3*y1*y2^2
      - a^2*x1^2*x2*x3*y1 + a^2*x1*x2^3*y1^2*y3 - a^2*x1*x2^3*y3 + a^2*x1*x2^2*x3*y1^2*y2
      - a^2*x1*x2^2*x3*y2 + a^2*x2^3*x3*y1^3 - a^2*x2^3*x3*y1 + a*d*x1^2*x2^2*y1*y2*y3
      - a*d*x1^2*x2*x3*y1*y2^2 - a*d*x1*x2^2*x3*y1^2*y2 - a*x1^2*y1*y2^3*y3 + a*x1^2*y1*y2*y3
      + a*x1*x2*y1^2*y2^2*y3 - a*x1*x2*y1^2*y3 - a*x1*x2*y2^2*y3 + a*x1*x2*y3 + a*x1*x3*y1^2*y2^3
      - a*x1*x3*y1^2*y2 - a*x1*x3*y2^3 + a*x1*x3*y2 - a*x2^2*y1^3*y2*y3 + a*x2^2*y1*y2*y3
      + a*x2*x3*y1^3*y2^2 - a*x2*x3*y1^3 - a*x2*x3*y1*y2^2 + a*x2*x3*y1 - d*x1*x2*y1^2*y2^2*y3
      - y1^3*y2^3*y3 + y1^3*y2*y3 + y1*y2^3*y3 - y1*y2*y3) * h3

end GoIpa.Edwards
