/-
  Kernel-checked primality of the two field moduli: Pratt certificates (Lucas test with the
  model's square-and-multiply, `decide +kernel`), small primes by `norm_num`.
  GENERATED ONCE by a script from sympy factorizations and committed; the factorizations are
  re-checked here (`decide`), nothing about them is trusted.
-/
import Mathlib.Tactic.NormNum.Prime
import GoIpa.Lemmas.ZpField
namespace GoIpa.Primes
open GoIpa GoIpa.Zp

theorem prime_2 : Nat.Prime 2 := by norm_num
theorem prime_3 : Nat.Prime 3 := by norm_num
theorem prime_5 : Nat.Prime 5 := by norm_num
theorem prime_7 : Nat.Prime 7 := by norm_num
theorem prime_11 : Nat.Prime 11 := by norm_num
theorem prime_13 : Nat.Prime 13 := by norm_num
theorem prime_17 : Nat.Prime 17 := by norm_num
theorem prime_19 : Nat.Prime 19 := by norm_num
theorem prime_31 : Nat.Prime 31 := by norm_num
theorem prime_37 : Nat.Prime 37 := by norm_num
theorem prime_43 : Nat.Prime 43 := by norm_num
theorem prime_47 : Nat.Prime 47 := by norm_num
theorem prime_53 : Nat.Prime 53 := by norm_num
theorem prime_59 : Nat.Prime 59 := by norm_num
theorem prime_181 : Nat.Prime 181 := by norm_num
theorem prime_263 : Nat.Prime 263 := by norm_num
theorem prime_311 : Nat.Prime 311 := by norm_num
theorem prime_2861 : Nat.Prime 2861 := by norm_num
theorem prime_4597 : Nat.Prime 4597 := by norm_num
theorem prime_9127 : Nat.Prime 9127 := by norm_num
theorem prime_10177 : Nat.Prime 10177 := by norm_num
theorem prime_12433 : Nat.Prime 12433 := by norm_num
theorem prime_28771 : Nat.Prime 28771 := by norm_num
theorem prime_125527 : Nat.Prime 125527 := by norm_num
theorem prime_175543 : Nat.Prime 175543 := by norm_num
theorem prime_609743 : Nat.Prime 609743 := by norm_num
theorem prime_850631 : Nat.Prime 850631 := by norm_num
theorem prime_859267 : Nat.Prime 859267 := by norm_num
theorem prime_906349 : Nat.Prime 906349 := by norm_num
theorem prime_2252647 : Nat.Prime 2252647 := by norm_num
theorem prime_2508409 : Nat.Prime 2508409 := by norm_num
theorem prime_2529403 : Nat.Prime 2529403 := by norm_num
theorem prime_2653753 : Nat.Prime 2653753 := by norm_num

theorem prime_52437899 : Nat.Prime 52437899 := by
  refine @lucas_cert 52437899 2 ⟨by decide⟩ (by decide) [(2, 1), (43, 1), (609743, 1)] ?_ (by decide +kernel) (by decide +kernel) (by decide +kernel)
  intro e he
  simp only [List.mem_cons, List.not_mem_nil, or_false] at he
  rcases he with rfl | rfl | rfl
  · exact prime_2
  · exact prime_43
  · exact prime_609743

theorem prime_63690073 : Nat.Prime 63690073 := by
  refine @lucas_cert 63690073 7 ⟨by decide⟩ (by decide) [(2, 3), (3, 1), (2653753, 1)] ?_ (by decide +kernel) (by decide +kernel) (by decide +kernel)
  intro e he
  simp only [List.mem_cons, List.not_mem_nil, or_false] at he
  rcases he with rfl | rfl | rfl
  · exact prime_2
  · exact prime_3
  · exact prime_2653753

theorem prime_254760293 : Nat.Prime 254760293 := by
  refine @lucas_cert 254760293 2 ⟨by decide⟩ (by decide) [(2, 2), (63690073, 1)] ?_ (by decide +kernel) (by decide +kernel) (by decide +kernel)
  intro e he
  simp only [List.mem_cons, List.not_mem_nil, or_false] at he
  rcases he with rfl | rfl
  · exact prime_2
  · exact prime_63690073

theorem prime_52435875175126190479447740508185965837690552500527637822603658699938581184513 : Nat.Prime 52435875175126190479447740508185965837690552500527637822603658699938581184513 := by
  refine @lucas_cert 52435875175126190479447740508185965837690552500527637822603658699938581184513 7 ⟨by decide⟩ (by decide) [(2, 32), (3, 1), (11, 1), (19, 1), (10177, 1), (125527, 1), (859267, 1), (906349, 2), (2508409, 1), (2529403, 1), (52437899, 1), (254760293, 2)] ?_ (by decide +kernel) (by decide +kernel) (by decide +kernel)
  intro e he
  simp only [List.mem_cons, List.not_mem_nil, or_false] at he
  rcases he with rfl | rfl | rfl | rfl | rfl | rfl | rfl | rfl | rfl | rfl | rfl | rfl
  · exact prime_2
  · exact prime_3
  · exact prime_11
  · exact prime_19
  · exact prime_10177
  · exact prime_125527
  · exact prime_859267
  · exact prime_906349
  · exact prime_2508409
  · exact prime_2529403
  · exact prime_52437899
  · exact prime_254760293

theorem prime_5188382954213 : Nat.Prime 5188382954213 := by
  refine @lucas_cert 5188382954213 2 ⟨by decide⟩ (by decide) [(2, 2), (53, 1), (28771, 1), (850631, 1)] ?_ (by decide +kernel) (by decide +kernel) (by decide +kernel)
  intro e he
  simp only [List.mem_cons, List.not_mem_nil, or_false] at he
  rcases he with rfl | rfl | rfl | rfl
  · exact prime_2
  · exact prime_53
  · exact prime_28771
  · exact prime_850631

theorem prime_48407612962807291 : Nat.Prime 48407612962807291 := by
  refine @lucas_cert 48407612962807291 2 ⟨by decide⟩ (by decide) [(2, 1), (3, 1), (5, 1), (311, 1), (5188382954213, 1)] ?_ (by decide +kernel) (by decide +kernel) (by decide +kernel)
  intro e he
  simp only [List.mem_cons, List.not_mem_nil, or_false] at he
  rcases he with rfl | rfl | rfl | rfl | rfl
  · exact prime_2
  · exact prime_3
  · exact prime_5
  · exact prime_311
  · exact prime_5188382954213

theorem prime_108127057 : Nat.Prime 108127057 := by
  refine @lucas_cert 108127057 5 ⟨by decide⟩ (by decide) [(2, 4), (3, 1), (2252647, 1)] ?_ (by decide +kernel) (by decide +kernel) (by decide +kernel)
  intro e he
  simp only [List.mem_cons, List.not_mem_nil, or_false] at he
  rcases he with rfl | rfl | rfl
  · exact prime_2
  · exact prime_3
  · exact prime_2252647

theorem prime_55538253751298627 : Nat.Prime 55538253751298627 := by
  refine @lucas_cert 55538253751298627 5 ⟨by decide⟩ (by decide) [(2, 1), (7, 1), (11, 1), (19, 1), (175543, 1), (108127057, 1)] ?_ (by decide +kernel) (by decide +kernel) (by decide +kernel)
  intro e he
  simp only [List.mem_cons, List.not_mem_nil, or_false] at he
  rcases he with rfl | rfl | rfl | rfl | rfl | rfl
  · exact prime_2
  · exact prime_7
  · exact prime_11
  · exact prime_19
  · exact prime_175543
  · exact prime_108127057

theorem prime_2038476065687664805409 : Nat.Prime 2038476065687664805409 := by
  refine @lucas_cert 2038476065687664805409 3 ⟨by decide⟩ (by decide) [(2, 5), (31, 1), (37, 1), (55538253751298627, 1)] ?_ (by decide +kernel) (by decide +kernel) (by decide +kernel)
  intro e he
  simp only [List.mem_cons, List.not_mem_nil, or_false] at he
  rcases he with rfl | rfl | rfl | rfl
  · exact prime_2
  · exact prime_31
  · exact prime_37
  · exact prime_55538253751298627

theorem prime_45317215763 : Nat.Prime 45317215763 := by
  refine @lucas_cert 45317215763 2 ⟨by decide⟩ (by decide) [(2, 1), (7, 2), (13, 1), (2861, 1), (12433, 1)] ?_ (by decide +kernel) (by decide +kernel) (by decide +kernel)
  intro e he
  simp only [List.mem_cons, List.not_mem_nil, or_false] at he
  rcases he with rfl | rfl | rfl | rfl | rfl
  · exact prime_2
  · exact prime_7
  · exact prime_13
  · exact prime_2861
  · exact prime_12433

theorem prime_26099477 : Nat.Prime 26099477 := by
  refine @lucas_cert 26099477 2 ⟨by decide⟩ (by decide) [(2, 2), (13, 1), (47, 1), (59, 1), (181, 1)] ?_ (by decide +kernel) (by decide +kernel) (by decide +kernel)
  intro e he
  simp only [List.mem_cons, List.not_mem_nil, or_false] at he
  rcases he with rfl | rfl | rfl | rfl | rfl
  · exact prime_2
  · exact prime_13
  · exact prime_47
  · exact prime_59
  · exact prime_181

theorem prime_21762199 : Nat.Prime 21762199 := by
  refine @lucas_cert 21762199 3 ⟨by decide⟩ (by decide) [(2, 1), (3, 2), (263, 1), (4597, 1)] ?_ (by decide +kernel) (by decide +kernel) (by decide +kernel)
  intro e he
  simp only [List.mem_cons, List.not_mem_nil, or_false] at he
  rcases he with rfl | rfl | rfl | rfl
  · exact prime_2
  · exact prime_3
  · exact prime_263
  · exact prime_4597

theorem prime_66913960865519628631 : Nat.Prime 66913960865519628631 := by
  refine @lucas_cert 66913960865519628631 15 ⟨by decide⟩ (by decide) [(2, 1), (3, 2), (5, 1), (7, 1), (11, 1), (17, 1), (21762199, 1), (26099477, 1)] ?_ (by decide +kernel) (by decide +kernel) (by decide +kernel)
  intro e he
  simp only [List.mem_cons, List.not_mem_nil, or_false] at he
  rcases he with rfl | rfl | rfl | rfl | rfl | rfl | rfl | rfl
  · exact prime_2
  · exact prime_3
  · exact prime_5
  · exact prime_7
  · exact prime_11
  · exact prime_17
  · exact prime_21762199
  · exact prime_26099477

theorem prime_55352597255927763854484663053009063 : Nat.Prime 55352597255927763854484663053009063 := by
  refine @lucas_cert 55352597255927763854484663053009063 5 ⟨by decide⟩ (by decide) [(2, 1), (9127, 1), (45317215763, 1), (66913960865519628631, 1)] ?_ (by decide +kernel) (by decide +kernel) (by decide +kernel)
  intro e he
  simp only [List.mem_cons, List.not_mem_nil, or_false] at he
  rcases he with rfl | rfl | rfl | rfl
  · exact prime_2
  · exact prime_9127
  · exact prime_45317215763
  · exact prime_66913960865519628631

theorem prime_13108968793781547619861935127046491459309155893440570251786403306729687672801 : Nat.Prime 13108968793781547619861935127046491459309155893440570251786403306729687672801 := by
  refine @lucas_cert 13108968793781547619861935127046491459309155893440570251786403306729687672801 7 ⟨by decide⟩ (by decide) [(2, 5), (3, 1), (5, 2), (48407612962807291, 1), (2038476065687664805409, 1), (55352597255927763854484663053009063, 1)] ?_ (by decide +kernel) (by decide +kernel) (by decide +kernel)
  intro e he
  simp only [List.mem_cons, List.not_mem_nil, or_false] at he
  rcases he with rfl | rfl | rfl | rfl | rfl | rfl
  · exact prime_2
  · exact prime_3
  · exact prime_5
  · exact prime_48407612962807291
  · exact prime_2038476065687664805409
  · exact prime_55352597255927763854484663053009063

/-- the base-field modulus is prime -/
theorem P_prime : Nat.Prime GoIpa.P := prime_52435875175126190479447740508185965837690552500527637822603658699938581184513

/-- the scalar-field modulus (the group order) is prime -/
theorem R_prime : Nat.Prime GoIpa.R := prime_13108968793781547619861935127046491459309155893440570251786403306729687672801

end GoIpa.Primes
