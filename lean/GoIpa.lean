-- This module serves as the root of the `GoIpa` library.
-- Import modules here that should be built as part of the library.
import GoIpa.Basic
