import sympy, json
P=52435875175126190479447740508185965837690552500527637822603658699938581184513
R=13108968793781547619861935127046491459309155893440570251786403306729687672801
SMALL=10**7
certs={}
def cert(p):
    if p<SMALL or p in certs: return
    f=sympy.factorint(p-1)
    a=2
    while True:
        if pow(a,p-1,p)==1 and all(pow(a,(p-1)//q,p)!=1 for q in f): break
        a+=1
    certs[p]=(a,f)
    for q in f: cert(q)
cert(P); cert(R)
for p,(a,f) in certs.items(): print(p,a,f)
json.dump({str(p):[a,{str(q):e for q,e in f.items()}] for p,(a,f) in certs.items()},open('certs.json','w'))
