import json
certs=json.load(open('certs.json'))
certs={int(p):(a,{int(q):e for q,e in f.items()}) for p,(a,f) in certs.items()}
small=set()
for p,(a,f) in certs.items():
    for q in f:
        if q not in certs: small.add(q)
out=[]
out.append("""/-
  Kernel-checked primality of the two field moduli: Pratt certificates (Lucas test with the
  model's square-and-multiply, `decide +kernel`), small primes by `norm_num`.
  GENERATED ONCE by a script from sympy factorizations and committed; the factorizations are
  re-checked here (`decide`), nothing about them is trusted.
-/
import Mathlib.Tactic.NormNum.Prime
import GoIpa.Lemmas.ZpField
namespace GoIpa.Primes
open GoIpa GoIpa.Zp
""")
for q in sorted(small):
    out.append("theorem prime_%d : Nat.Prime %d := by norm_num"%(q,q))
out.append("")
# order big primes so that dependencies come first
done=set(small)
order=[]
def visit(p):
    if p in done: return
    a,f=certs[p]
    for q in f: visit(q)
    done.add(p); order.append(p)
for p in certs: visit(p)
for p in order:
    a,f=certs[p]
    qs=sorted(f)
    l="["+", ".join("(%d, %d)"%(q,f[q]) for q in qs)+"]"
    cases=" | ".join(["rfl"]*len(qs))
    lines=[]
    lines.append("theorem prime_%d : Nat.Prime %d := by"%(p,p))

    lines.append("  refine @lucas_cert %d %d ⟨by decide⟩ (by decide) %s ?_ (by decide +kernel) (by decide +kernel) (by decide +kernel)"%(p,a,l))
    lines.append("  intro e he")
    lines.append("  simp only [List.mem_cons, List.not_mem_nil, or_false] at he")
    lines.append("  rcases he with %s"%cases)
    for q in qs:
        lines.append("  · exact prime_%d"%q)
    out.append("\n".join(lines)+"\n")
out.append("/-- the base-field modulus is prime -/\ntheorem P_prime : Nat.Prime GoIpa.P := prime_52435875175126190479447740508185965837690552500527637822603658699938581184513\n")
out.append("/-- the scalar-field modulus (the group order) is prime -/\ntheorem R_prime : Nat.Prime GoIpa.R := prime_13108968793781547619861935127046491459309155893440570251786403306729687672801\n")
out.append("end GoIpa.Primes")
open('/verif/lean/GoIpa/Lemmas/Primes.lean','w').write("\n".join(out)+"\n")
print(len(small), len(order))
